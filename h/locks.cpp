// C22: spin locks, reentrant spin locks, lock_array, injecting_monitor and pool_monitor provide
// mutual exclusion: at most one thread inside a critical section guarded by the same lock or
// node; a reentrant lock is released only by its owner's last unlock; pool_monitor hands a node's
// lock back to the pool only when nobody holds or awaits it and never gives one pool lock to two
// nodes at once.
#include "common.h"
#include "stats.h"

#include <cstdio>
#include <mutex>
#include <cds/sync/spinlock.h>
#include <cds/sync/lock_array.h>
#include <cds/sync/monitor.h>
#include <cds/sync/injecting_monitor.h>
#include <cds/sync/pool_monitor.h>
#include <cds/memory/vyukov_queue_pool.h>

namespace hv {
    Registry& registry()
    {
        static Registry r;
        return r;
    }
    Graveyard& graveyard()
    {
        static Graveyard g;
        return g;
    }
}

using namespace hv;
namespace cs = cds::sync;
namespace cm = cds::memory;
namespace bo = cds::backoff;

namespace {

    enum { OP_LOCK = 0, OP_TRY = 1, OP_UNLOCK = 2, OP_SCOPED = 3, OP_ALL = 4 };
    const int kMaxDepth = 3;

    // ---- oracle state shared by all bodies (only one thread runs at a time) -----------------
    struct Oracle {
        int N = 0;
        int T = 0;
        std::vector<int> inside;        // number of un-released acquisitions of lock/node n
        std::vector<int> owner;         // thread inside n, -1 if none
        std::vector<int> releasing;     // number of threads between "left the section" and return of unlock()
        unsigned contended = 0;         // a thread about to acquire saw the lock held by another thread / try_lock lost
        unsigned try_lost = 0;
        unsigned nested = 0;
        uint64_t hh = 0x22;
        void init( int n, int t )
        {
            N = n;
            T = t;
            inside.assign( size_t( n ), 0 );
            owner.assign( size_t( n ), -1 );
            releasing.assign( size_t( n ), 0 );
        }
        bool held_by_other( int n, int me ) const { return inside[size_t( n )] > 0 && owner[size_t( n )] != me; }
    };

    // ---- per lock type knowledge ---------------------------------------------------------------
    template <typename L>
    struct lock_traits {                    // std::mutex and the like
        static constexpr bool reentrant = false;
        static constexpr bool spin = false;
        static bool try_n( L& l, bool ) { return l.try_lock(); }
        // what a thread that does NOT hold the lock must see while another one holds it: 1 locked, 0 free, -1 unknown
        static int foreign_view( L& ) { return -1; }
        static void held_check( L&, int ) {}
        static bool is_free( L& ) { return true; }
    };
    template <typename B>
    struct lock_traits<cs::spin_lock<B>> {
        typedef cs::spin_lock<B> L;
        static constexpr bool reentrant = false;
        static constexpr bool spin = true;
        static bool try_n( L& l, bool multi ) { return multi ? l.try_lock( 2 ) : l.try_lock(); }
        static int foreign_view( L& l ) { return l.is_locked() ? 1 : 0; }
        static void held_check( L& l, int n )
        {
            if ( !l.is_locked())
                fail( "spin_lock #" + std::to_string( n ) + ": is_locked() is false while a thread is inside" );
        }
        static bool is_free( L& l ) { return !l.is_locked(); }
    };
    template <typename I, typename B>
    struct lock_traits<cs::reentrant_spin_lock<I, B>> {
        typedef cs::reentrant_spin_lock<I, B> L;
        static constexpr bool reentrant = true;
        static constexpr bool spin = true;
        static bool try_n( L& l, bool multi ) { return multi ? l.try_lock( 2 ) : l.try_lock(); }
        static int foreign_view( L& l ) { return l.is_locked() ? 1 : 0; }
        static void held_check( L& l, int n )
        {
            // "the spin is unlocked if lock count == 0 or the current thread owns the spin"
            if ( l.is_locked())
                fail( "reentrant_spin_lock #" + std::to_string( n ) + ": is_locked() is true for the owner inside the section" );
        }
        static bool is_free( L& l ) { return !l.is_locked(); }
    };

    // ---- adapters -----------------------------------------------------------------------------------
    // N separate lock objects
    template <typename L>
    struct Plain {
        typedef lock_traits<L> lt;
        static constexpr bool reentrant = lt::reentrant;
        static constexpr bool has_try = true;
        static constexpr bool try_own = lt::spin && !lt::reentrant;
        int N;
        std::unique_ptr<L[]> l;
        Plain( int n, Case const&, Oracle& ) : N( n ), l( new L[size_t( n )] ) {}
        void lock( int n ) { l[size_t( n )].lock(); }
        bool try_lock( int n, bool multi ) { return lt::try_n( l[size_t( n )], multi ); }
        void unlock( int n ) { l[size_t( n )].unlock(); }
        template <typename F>
        void scoped( int n, F f )
        {
            std::lock_guard<L> g( l[size_t( n )] );
            f();
        }
        template <typename F>
        void all( F f )
        {
            for ( int i = 0; i < N; ++i )
                l[size_t( i )].lock();
            f();
            for ( int i = N - 1; i >= 0; --i )
                l[size_t( i )].unlock();
        }
        int foreign_view( int n ) { return lt::foreign_view( l[size_t( n )] ); }
        void acquired( int, int, bool ) {}
        void held_check( int n, int ) { lt::held_check( l[size_t( n )], n ); }
        void quiescent()
        {
            for ( int i = 0; i < N; ++i )
                if ( !lt::is_free( l[size_t( i )] ))
                    fail( "lock #" + std::to_string( i ) + " is still locked at quiescence" );
        }
    };

    // cds::sync::lock_array
    struct pol_mod {
        typedef cs::mod_select_policy type;
        static size_t cap( int n ) { return size_t( n ); }
        static type make( size_t ) { return type(); }
        static size_t hint( int n, size_t cap ) { return size_t( n ) + cap * size_t( n + 1 ); }
    };
    struct pol_trivial {
        typedef cs::trivial_select_policy type;
        static size_t cap( int n ) { return size_t( n ); }
        static type make( size_t ) { return type(); }
        static size_t hint( int n, size_t ) { return size_t( n ); }
    };
    struct pol_pow2 {
        typedef cs::pow2_select_policy type;
        static size_t cap( int n ) { return n <= 1 ? 1 : n == 2 ? 2 : 4; }
        static type make( size_t cap ) { return type( cap ); }
        static size_t hint( int n, size_t cap ) { return size_t( n ) + cap * size_t( 3 - n ); }
    };
    template <typename L, typename Pol>
    struct Arr {
        typedef lock_traits<L> lt;
        typedef cs::lock_array<L, typename Pol::type> array_t;
        static constexpr bool reentrant = lt::reentrant;
        static constexpr bool has_try = true;
        static constexpr bool try_own = lt::spin && !lt::reentrant;
        int N;
        size_t cap;
        array_t arr;
        Arr( int n, Case const&, Oracle& ) : N( n ), cap( Pol::cap( n )), arr( cap, Pol::make( cap )) {}
        void cell_check( size_t cell, int n, const char* what )
        {
            if ( cell != size_t( n ))
                fail( std::string( "lock_array::" ) + what + " returned cell " + std::to_string( cell ) + " for a hint that selects cell " + std::to_string( n ));
        }
        void lock( int n ) { cell_check( arr.lock( Pol::hint( n, cap )), n, "lock" ); }
        bool try_lock( int n, bool )
        {
            size_t cell = arr.try_lock( Pol::hint( n, cap ));
            if ( cell == array_t::c_nUnspecifiedCell )
                return false;
            cell_check( cell, n, "try_lock" );
            return true;
        }
        void unlock( int n ) { arr.unlock( size_t( n )); }
        template <typename F>
        void scoped( int n, F f )
        {
            std::unique_lock<array_t> g( arr, Pol::hint( n, cap ));
            f();
        }
        template <typename F>
        void all( F f )
        {
            std::unique_lock<array_t> g( arr );     // lock_all() / unlock_all()
            f();
        }
        int foreign_view( int n ) { return lt::foreign_view( arr.at( size_t( n ))); }
        void acquired( int, int, bool ) {}
        void held_check( int n, int ) { lt::held_check( arr.at( size_t( n )), n ); }
        void quiescent()
        {
            if ( arr.size() != cap )
                fail( "lock_array::size() differs from the capacity it was constructed with" );
            for ( size_t i = 0; i < cap; ++i )
                if ( !lt::is_free( arr.at( i )))
                    fail( "lock_array cell #" + std::to_string( i ) + " is still locked at quiescence" );
        }
    };

    // monitors: the node embeds monitor specific data as m_SyncMonitorInjection
    template <typename Mon>
    struct MonNode {
        typename Mon::node_injection m_SyncMonitorInjection;
        int payload = 0;
    };

    template <typename L>
    struct InjMon {
        typedef lock_traits<L> lt;
        typedef cs::injecting_monitor<L> Mon;
        typedef MonNode<Mon> node_t;
        static constexpr bool reentrant = lt::reentrant;
        static constexpr bool has_try = false;
        static constexpr bool try_own = false;
        int N;
        Mon mon;
        std::unique_ptr<node_t[]> nodes;
        InjMon( int n, Case const&, Oracle& ) : N( n ), nodes( new node_t[size_t( n )] ) {}
        void lock( int n ) { mon.lock( nodes[size_t( n )] ); }
        bool try_lock( int, bool ) { return false; }
        void unlock( int n ) { mon.unlock( nodes[size_t( n )] ); }
        template <typename F>
        void scoped( int n, F f )
        {
            typename Mon::template scoped_lock<node_t> g( mon, nodes[size_t( n )] );
            f();
        }
        template <typename F>
        void all( F f )
        {
            for ( int i = 0; i < N; ++i )
                mon.lock( nodes[size_t( i )] );
            f();
            for ( int i = N - 1; i >= 0; --i )
                mon.unlock( nodes[size_t( i )] );
        }
        int foreign_view( int n ) { return lt::foreign_view( nodes[size_t( n )].m_SyncMonitorInjection.m_Lock ); }
        void acquired( int, int, bool ) {}
        void held_check( int n, int ) { lt::held_check( nodes[size_t( n )].m_SyncMonitorInjection.m_Lock, n ); }
        void quiescent()
        {
            for ( int i = 0; i < N; ++i ) {
                if ( !nodes[size_t( i )].m_SyncMonitorInjection.check_free())
                    fail( "injecting_monitor: node_injection::check_free() is false at quiescence" );
                if ( !lt::is_free( nodes[size_t( i )].m_SyncMonitorInjection.m_Lock ))
                    fail( "injecting_monitor: node #" + std::to_string( i ) + " is still locked at quiescence" );
            }
        }
    };

    template <typename Pool, typename BackOff, bool Stat, bool Bounded>
    struct PoolMon;
    template <bool Stat>
    struct stat_check {
        template <typename Mon>
        static void run( Mon const&, uint64_t, uint64_t ) {}
    };
    template <>
    struct stat_check<true> {
        template <typename Mon>
        static void run( Mon const& mon, uint64_t locks, uint64_t unlocks )
        {
            auto const& s = mon.statistics();
            if ( s.m_nLockCount.get() != locks || s.m_nUnlockCount.get() != unlocks )
                fail( "pool_monitor statistics: lock/unlock counters " + std::to_string( s.m_nLockCount.get()) + "/" + std::to_string( s.m_nUnlockCount.get())
                    + " differ from the calls made " + std::to_string( locks ) + "/" + std::to_string( unlocks ));
            if ( s.m_nLockAllocation.get() != s.m_nLockDeallocation.get())
                fail( "pool_monitor statistics: " + std::to_string( s.m_nLockAllocation.get()) + " lock allocations but " + std::to_string( s.m_nLockDeallocation.get()) + " deallocations at quiescence" );
        }
    };

    template <typename Pool, typename BackOff, bool Stat, bool Bounded>
    struct PoolMon {
        typedef typename Pool::value_type L;
        typedef lock_traits<L> lt;
        typedef cs::pool_monitor<Pool, BackOff, Stat> Mon;
        typedef MonNode<Mon> node_t;
        static constexpr bool reentrant = lt::reentrant;
        static constexpr bool has_try = false;
        static constexpr bool try_own = false;
        int N;
        Oracle& orc;
        Mon mon;
        std::unique_ptr<node_t[]> nodes;
        std::vector<L*> held_ptr;
        uint64_t locks = 0, unlocks = 0;

        static size_t capacity( int n, Case const& c )
        {
            size_t cap = size_t( cfg_at( c, 1, 2 ));
            // A bounded pool that runs dry makes pool_monitor::lock() throw std::bad_alloc while it
            // owns the node's spin bit (by design: "the pool can contain up to N items"). unlock()
            // gives the lock back to the pool only AFTER it has detached it from the node and released
            // the spin bit, so a lock in flight back to the pool is unavailable to a thread that
            // re-locks the node meanwhile: the bounded pool must hold one lock per node plus one per
            // thread that may be in the tail of unlock().
            if ( Bounded && cap < size_t( n ) + c.prog.size())
                cap = size_t( n ) + c.prog.size();
            return cap < 2 ? 2 : cap;
        }
        PoolMon( int n, Case const& c, Oracle& o ) : N( n ), orc( o ), mon( capacity( n, c )), nodes( new node_t[size_t( n )] ), held_ptr( size_t( n ), nullptr ) {}
        void lock( int n )
        {
            ++locks;
            mon.lock( nodes[size_t( n )] );
        }
        bool try_lock( int, bool ) { return false; }
        void unlock( int n )
        {
            ++unlocks;
            mon.unlock( nodes[size_t( n )] );
        }
        template <typename F>
        void scoped( int n, F f )
        {
            ++locks;
            ++unlocks;
            typename Mon::template scoped_lock<node_t> g( mon, nodes[size_t( n )] );
            f();
        }
        template <typename F>
        void all( F f )
        {
            for ( int i = 0; i < N; ++i )
                lock( i );
            f();
            for ( int i = N - 1; i >= 0; --i )
                unlock( i );
        }
        unsigned refs( int n ) { return nodes[size_t( n )].m_SyncMonitorInjection.m_RefSpin.load( atomics::memory_order_relaxed ) >> 1; }
        int foreign_view( int n )
        {
            // somebody holds the node: its reference is counted and the lock is attached
            unsigned r = refs( n );
            if ( orc.held_by_other( n, -2 ) && orc.releasing[size_t( n )] == 0 ) {
                if ( r == 0 )
                    fail( "pool_monitor: reference counter of node #" + std::to_string( n ) + " is 0 while a thread holds the node" );
                else if ( nodes[size_t( n )].m_SyncMonitorInjection.m_pLock == nullptr )
                    fail( "pool_monitor: node #" + std::to_string( n ) + " has no lock attached while a thread holds it" );
            }
            return -1;
        }
        // called right after an acquisition (no scheduling point since lock() returned)
        void acquired( int n, int, bool first )
        {
            L* p = nodes[size_t( n )].m_SyncMonitorInjection.m_pLock;
            if ( !p ) {
                fail( "pool_monitor: m_pLock of node #" + std::to_string( n ) + " is null right after lock() returned" );
                return;
            }
            if ( first ) {
                for ( int k = 0; k < N; ++k )
                    if ( k != n && orc.inside[size_t( k )] > 0 && held_ptr[size_t( k )] == p )
                        fail( "pool_monitor: nodes #" + std::to_string( k ) + " and #" + std::to_string( n ) + " are held at the same time through the same pool lock" );
                held_ptr[size_t( n )] = p;
            }
            else if ( held_ptr[size_t( n )] != p )
                fail( "pool_monitor: m_pLock of node #" + std::to_string( n ) + " changed between nested acquisitions" );
        }
        void held_check( int n, int )
        {
            L* p = nodes[size_t( n )].m_SyncMonitorInjection.m_pLock;
            if ( !p )
                fail( "pool_monitor: m_pLock of node #" + std::to_string( n ) + " became null while a thread holds the node" );
            else if ( p != held_ptr[size_t( n )] )
                fail( "pool_monitor: m_pLock of node #" + std::to_string( n ) + " changed while a thread holds the node" );
            else
                lt::held_check( *p, n );
            unsigned r = refs( n );
            if ( r < unsigned( orc.inside[size_t( n )] ) || r > unsigned( orc.T ) * unsigned( kMaxDepth ))
                fail( "pool_monitor: reference counter of node #" + std::to_string( n ) + " is " + std::to_string( r ) + " while it is held " + std::to_string( orc.inside[size_t( n )] ) + " time(s)" );
        }
        void quiescent()
        {
            for ( int i = 0; i < N; ++i )
                if ( !nodes[size_t( i )].m_SyncMonitorInjection.check_free())
                    fail( "pool_monitor: node #" + std::to_string( i ) + " still owns a pool lock or references at quiescence (m_pLock "
                        + ( nodes[size_t( i )].m_SyncMonitorInjection.m_pLock ? "set" : "null" ) + ", refspin " + std::to_string( refs( i ) * 2 ) + ")" );
            stat_check<Stat>::run( mon, locks, unlocks );
        }
    };

    // ---- interpreter ----------------------------------------------------------------------------------
    template <typename K>
    Verdict run_locks( Case const& c )
    {
        lib_init();
        case_reset();
        registry().reset();
        CaseRng::seed( c.seed );
        const int T = int( c.prog.size());
        const int N = cfg_at( c, 0, 1 );
        Oracle o;
        o.init( N, T );
        SchedStats st;
        K* kp = new K( N, c, o );       // leaked on failure: lock destructors assert that they are free
        K& k = *kp;
        session_begin( sched_params( c ));
        {
            Attach main_attach;
            std::vector<std::function<void()>> bodies;
            for ( int t = 0; t < T; ++t ) {
                bodies.push_back( [&, t]() {
                    Attach at;
                    const int me = t + 1;
                    std::vector<int> stk;       // acquisition stack (LIFO release)
                    auto depth = [&]( int n ) {
                        int d = 0;
                        for ( int x : stk )
                            if ( x == n )
                                ++d;
                        return d;
                    };
                    auto max_held = [&]() {
                        int m = -1;
                        for ( int x : stk )
                            if ( x > m )
                                m = x;
                        return m;
                    };
                    auto check = [&]() {
                        for ( int n = 0; n < N; ++n ) {
                            int d = depth( n );
                            if ( !d )
                                continue;
                            if ( o.owner[size_t( n )] != me || o.inside[size_t( n )] != d )
                                fail( "mutual exclusion violated on #" + std::to_string( n ) + ": thread " + std::to_string( me ) + " is inside at depth " + std::to_string( d )
                                    + " but the section is owned by thread " + std::to_string( o.owner[size_t( n )] ) + " with " + std::to_string( o.inside[size_t( n )] ) + " entries" );
                            else
                                k.held_check( n, me );
                        }
                    };
                    auto points = [&]( int b ) {
                        for ( int i = 0; i < b; ++i ) {
                            cdsverif::point();
                            check();
                        }
                    };
                    // right after an acquisition returned (no scheduling point in between)
                    auto enter = [&]( int n ) {
                        int d = depth( n );
                        if ( d == 0 ) {
                            if ( o.inside[size_t( n )] != 0 || o.owner[size_t( n )] != -1 )
                                fail( "mutual exclusion violated on #" + std::to_string( n ) + ": thread " + std::to_string( me ) + " entered while thread "
                                    + std::to_string( o.owner[size_t( n )] ) + " is inside (" + std::to_string( o.inside[size_t( n )] ) + " entries)" );
                            o.owner[size_t( n )] = me;
                            o.inside[size_t( n )] = 1;
                        }
                        else {
                            if ( o.owner[size_t( n )] != me || o.inside[size_t( n )] != d )
                                fail( "reentrant lock #" + std::to_string( n ) + ": thread " + std::to_string( me ) + " re-entered at depth " + std::to_string( d + 1 )
                                    + " but the section is owned by thread " + std::to_string( o.owner[size_t( n )] ) + " with " + std::to_string( o.inside[size_t( n )] ) + " entries" );
                            o.inside[size_t( n )] = d + 1;
                            ++o.nested;
                        }
                        stk.push_back( n );
                        k.acquired( n, me, d == 0 );
                        check();
                    };
                    // right before a release; returns true if it is the last one of this thread
                    auto leave = [&]( int n ) {
                        check();
                        stk.pop_back();
                        int d = depth( n );
                        o.inside[size_t( n )] = d;
                        if ( d == 0 ) {
                            o.owner[size_t( n )] = -1;
                            ++o.releasing[size_t( n )];
                        }
                        return d == 0;
                    };
                    auto left = [&]( int n, bool last ) {
                        if ( last )
                            --o.releasing[size_t( n )];
                    };
                    auto sample = [&]( int n ) {
                        // another thread is inside (and not on its way out): this acquisition is contended
                        bool other = o.held_by_other( n, me );
                        int v = k.foreign_view( n );    // may be a scheduling point
                        // re-evaluate after the probe: nothing ran between the probe's load and here
                        if ( o.held_by_other( n, me ) && o.releasing[size_t( n )] == 0 && v == 0 )
                            fail( "lock #" + std::to_string( n ) + ": is_locked() is false for thread " + std::to_string( me ) + " while thread " + std::to_string( o.owner[size_t( n )] ) + " is inside" );
                        if ( other || o.held_by_other( n, me ))
                            ++o.contended;
                    };
                    auto do_unlock = [&]( int b ) {
                        if ( stk.empty())
                            return;
                        points( b );
                        int n = stk.back();
                        bool last = leave( n );
                        k.unlock( n );
                        left( n, last );
                        o.hh = hash_mix( o.hh, uint64_t( me ) * 100 + 50 + uint64_t( n ));
                    };
                    auto do_lock = [&]( int n, int b ) {
                        if ( depth( n ) == 0 )
                            sample( n );
                        k.lock( n );
                        enter( n );
                        o.hh = hash_mix( o.hh, uint64_t( me ) * 100 + uint64_t( n ));
                        points( b );
                    };
                    auto do_try = [&]( int n, int b, bool multi ) {
                        int d = depth( n );
                        if ( d == 0 )
                            sample( n );
                        bool ok = k.try_lock( n, multi );
                        o.hh = hash_mix( o.hh, uint64_t( me ) * 100 + 10 + uint64_t( n ) * 2 + ( ok ? 1 : 0 ));
                        if ( ok ) {
                            if ( d > 0 && !K::reentrant )
                                fail( "try_lock() of non-reentrant lock #" + std::to_string( n ) + " succeeded for the thread that already holds it" );
                            enter( n );
                            points( b );
                        }
                        else {
                            if ( d > 0 && K::reentrant )
                                fail( "try_lock() of reentrant lock #" + std::to_string( n ) + " failed for its owner" );
                            if ( d == 0 ) {
                                ++o.try_lost;
                                // lost against a thread that is inside or on its way out; anything else (e.g. a
                                // reentrant lock acquired but its lock() not returned yet) is not counted
                                if ( o.held_by_other( n, me ) || o.releasing[size_t( n )] > 0 )
                                    ++o.contended;
                            }
                        }
                    };
                    // may thread `me` call the blocking lock(n) now without risking a client-level deadlock?
                    auto may_lock = [&]( int n ) {
                        int d = depth( n );
                        if ( d > 0 )
                            return K::reentrant && d < kMaxDepth;
                        return n > max_held();
                    };

                    for ( Op const& op : c.prog[size_t( t )] ) {
                        if ( failed())
                            break;
                        int n = op.a % N;
                        bool multi = op.a >= 3;
                        switch ( op.code ) {
                        case OP_LOCK:
                            if ( may_lock( n ))
                                do_lock( n, op.b );
                            else if ( K::has_try && ( depth( n ) == 0 || K::try_own ))
                                do_try( n, op.b, multi );
                            else
                                do_unlock( op.b );
                            break;
                        case OP_TRY:
                            if ( !K::has_try ) {
                                if ( may_lock( n ))
                                    do_lock( n, op.b );
                                else
                                    do_unlock( op.b );
                            }
                            else if ( depth( n ) == 0 || K::try_own || ( K::reentrant && depth( n ) < kMaxDepth ))
                                do_try( n, op.b, multi );
                            else
                                do_unlock( op.b );
                            break;
                        case OP_UNLOCK:
                            do_unlock( op.b );
                            break;
                        case OP_SCOPED:
                            if ( may_lock( n )) {
                                if ( depth( n ) == 0 )
                                    sample( n );
                                bool last = false;
                                k.scoped( n, [&]() {
                                    enter( n );
                                    points( op.b );
                                    last = leave( n );
                                } );
                                left( n, last );
                                o.hh = hash_mix( o.hh, uint64_t( me ) * 100 + 70 + uint64_t( n ));
                            }
                            else
                                do_unlock( op.b );
                            break;
                        default:
                            if ( stk.empty()) {
                                for ( int i = 0; i < N; ++i )
                                    sample( i );
                                std::vector<bool> last( size_t( N ), false );
                                k.all( [&]() {
                                    for ( int i = 0; i < N; ++i )
                                        enter( i );
                                    points( op.b );
                                    for ( int i = N - 1; i >= 0; --i )
                                        last[size_t( i )] = leave( i );
                                } );
                                for ( int i = 0; i < N; ++i )
                                    left( i, last[size_t( i )] );
                                o.hh = hash_mix( o.hh, uint64_t( me ) * 100 + 90 );
                            }
                            else
                                do_unlock( op.b );
                            break;
                        }
                    }
                    // release everything still held (also after a failure: others may be waiting)
                    while ( !stk.empty())
                        do_unlock( 0 );
                } );
            }
            run_threads( bodies );
            if ( !failed()) {
                for ( int n = 0; n < N; ++n )
                    if ( o.inside[size_t( n )] != 0 || o.owner[size_t( n )] != -1 )
                        fail( "harness: section #" + std::to_string( n ) + " not left at quiescence" );
                k.quiescent();
            }
            if ( !failed())
                delete kp;
        }
        st = session_end();
        if ( o.contended )
            note_class( "contended" );
        if ( o.try_lost )
            note_class( "try_lost" );
        if ( o.nested )
            note_class( "nested" );
        if ( st.preemptions )
            note_class( "preempted" );
        return finish( st, o.hh, o.contended > 0 && st.preemptions > 0 );
    }

    // ---- variant table ---------------------------------------------------------------------------------
    typedef cs::spin_lock<bo::yield> spin_yield;
    typedef cs::spin_lock<bo::pause> spin_pause;
    typedef cs::spin_lock<bo::hint> spin_hint;
    typedef cs::spin_lock<bo::empty> spin_empty;
    typedef cs::spin_lock<bo::delay_of<1>> spin_delay;
    typedef cs::reentrant_spin_lock<int, bo::yield> reentrant_int_yield;

    typedef cm::vyukov_queue_pool<cs::spin> vq_spin;
    typedef cm::vyukov_queue_pool<std::mutex> vq_mutex;
    typedef cm::vyukov_queue_pool<cs::reentrant_spin32> vq_reent;
    typedef cm::lazy_vyukov_queue_pool<cs::spin> lz_spin;
    typedef cm::lazy_vyukov_queue_pool<std::mutex> lz_mutex;

    // bounded_vyukov_queue_pool hands out raw storage: preallocate_pool() only allocates and
    // allocate() returns the cell without constructing a value_type (vyukov_queue_pool and
    // lazy_vyukov_queue_pool do placement-new), and pool_monitor::lock() does not construct the
    // lock either. pool_monitor<bounded_vyukov_queue_pool<L>> therefore locks objects whose
    // constructor never ran; it works in the library's own stress tests only because fresh heap
    // pages are zero and an all-zero spin_lock / std::mutex happens to be a valid unlocked lock
    // (under ASan the storage is filled with 0xbe: UBSan "load of value 190" for spin,
    // std::system_error EINVAL for std::mutex). That defect is demonstrated by the hidden variant
    // "pool_monitor_bounded_probe_defaultalloc" (--extra rawpool / --replay). The regular bounded
    // variants reproduce the zero-page situation with a zero-filling allocator so that the
    // monitor protocol itself can be checked over the bounded pool on the unchanged tree.
    template <typename T>
    struct zero_alloc : std::allocator<T> {
        template <typename U>
        struct rebind {
            typedef zero_alloc<U> other;
        };
        zero_alloc() = default;
        template <typename U>
        zero_alloc( zero_alloc<U> const& ) {}
        T* allocate( size_t n )
        {
            T* p = std::allocator<T>::allocate( n );
            memset( static_cast<void*>( p ), 0, n * sizeof( T ));
            return p;
        }
    };
    struct zeroed_pool_traits : cm::vyukov_queue_pool_traits {
        typedef zero_alloc<int> allocator;
    };
    typedef cm::bounded_vyukov_queue_pool<cs::spin, zeroed_pool_traits> bd_spin;
    typedef cm::bounded_vyukov_queue_pool<std::mutex, zeroed_pool_traits> bd_mutex;

    // a lock that knows whether its constructor ran
    struct ProbeLock {
        static constexpr uint64_t kMagic = 0x10c4c0de5afe1234ull;
        uint64_t magic = kMagic;
        cs::spin s;
        void lock()
        {
            if ( magic != kMagic ) {
                fail( "pool_monitor over bounded_vyukov_queue_pool locked a lock object that was never constructed (the pool hands out raw storage and the monitor does not construct it)" );
                new ( this ) ProbeLock;     // make it usable so that the case can finish
            }
            s.lock();
        }
        void unlock() { s.unlock(); }
        ~ProbeLock() { magic = 0; }
    };
    typedef cm::bounded_vyukov_queue_pool<ProbeLock> bd_probe;

    struct Variant {
        const char* name;
        Verdict (*run)( Case const& );
    };
    const Variant kVariants[] = {
        { "spin_exponential", run_locks<Plain<cs::spin>> },
        { "spin_yield", run_locks<Plain<spin_yield>> },
        { "spin_pause", run_locks<Plain<spin_pause>> },
        { "spin_hint", run_locks<Plain<spin_hint>> },
        { "spin_empty", run_locks<Plain<spin_empty>> },
        { "spin_delay1ms", run_locks<Plain<spin_delay>> },
        { "reentrant_spin32", run_locks<Plain<cs::reentrant_spin32>> },
        { "reentrant_spin64", run_locks<Plain<cs::reentrant_spin64>> },
        { "reentrant_spin_int_yield", run_locks<Plain<reentrant_int_yield>> },
        { "lock_array_spin_mod", run_locks<Arr<cs::spin, pol_mod>> },
        { "lock_array_mutex_pow2", run_locks<Arr<std::mutex, pol_pow2>> },
        { "lock_array_reentrant32_trivial", run_locks<Arr<cs::reentrant_spin32, pol_trivial>> },
        { "injecting_monitor_spin", run_locks<InjMon<cs::spin>> },
        { "injecting_monitor_mutex", run_locks<InjMon<std::mutex>> },
        { "injecting_monitor_reentrant32", run_locks<InjMon<cs::reentrant_spin32>> },
        { "pool_monitor_vyukov_spin", run_locks<PoolMon<vq_spin, bo::Default, false, false>> },
        { "pool_monitor_vyukov_mutex", run_locks<PoolMon<vq_mutex, bo::Default, false, false>> },
        { "pool_monitor_vyukov_reentrant32", run_locks<PoolMon<vq_reent, bo::Default, false, false>> },
        { "pool_monitor_lazy_spin", run_locks<PoolMon<lz_spin, bo::Default, false, false>> },
        { "pool_monitor_lazy_mutex_yield_stat", run_locks<PoolMon<lz_mutex, cds::opt::none, true, false>> },
        { "pool_monitor_bounded_spin_zeroed", run_locks<PoolMon<bd_spin, bo::Default, false, true>> },
        { "pool_monitor_bounded_mutex_stat_zeroed", run_locks<PoolMon<bd_mutex, bo::pause, true, true>> },
        // hidden (not in the schema, never generated): reachable through --replay and --extra rawpool
        { "pool_monitor_bounded_probe_defaultalloc", run_locks<PoolMon<bd_probe, bo::Default, false, true>> },
    };
    const size_t kNumVariants = sizeof( kVariants ) / sizeof( kVariants[0] );
    const size_t kNumHidden = 1;
    const size_t kNumPublic = kNumVariants - kNumHidden;
}

namespace cdsverif {
    Schema const& harness_schema()
    {
        static Schema s = []() {
            Schema x;
            x.name = "locks";
            for ( size_t i = 0; i < kNumPublic; ++i )
                x.variants.push_back( kVariants[i].name );
            x.cfg = { { "nodes", 1, 3 }, { "pool", 2, 5 } };
            // a: lock/node index (a mod nodes), a>=3 selects try_lock(nTryCount); b: points inside the section
            x.ops = { { "lock", 6, 5, 2 }, { "try_lock", 4, 5, 2 }, { "unlock", 6, 0, 2 }, { "scoped", 2, 5, 2 }, { "lock_all", 1, 0, 2 } };
            x.min_threads = 2;
            x.max_threads_quick = 3;
            x.max_threads_thorough = 4;
            x.max_ops_quick = 6;
            x.max_ops_thorough = 8;
            x.nontrivial_rule = "at least two threads contended for the same lock/node (a thread about to acquire observed another thread inside the section, "
                "or a try_lock lost against another thread) and at least one pre-emption happened";
            return x;
        }();
        return s;
    }

    Verdict run_case( Case const& c )
    {
        size_t v = size_t( c.variant ) < kNumVariants ? size_t( c.variant ) : 0;
        return kVariants[v].run( c );
    }

    // --extra rawpool: pool_monitor over a bounded_vyukov_queue_pool with the default allocator
    // and a lock type that detects that it was never constructed (see ProbeLock)
    int harness_extra( int argc, char** argv, RunStats& stats )
    {
        if ( argc < 1 || std::string( argv[0] ) != "rawpool" ) {
            fprintf( stderr, "locks --extra: unknown campaign (known: rawpool)\n" );
            return 2;
        }
        Schema const& s = harness_schema();
        int rc = 0;
        for ( int nodes = 1; nodes <= 3; ++nodes ) {
            Case c;
            c.harness = s.name;
            c.variant = int( kNumPublic );
            c.cfg = { nodes, 2 };
            c.prog.resize( 2 );
            c.prog[0] = { Op{ OP_LOCK, 0, 1 }, Op{ OP_UNLOCK, 0, 0 }, Op{ OP_ALL, 0, 1 } };
            c.prog[1] = { Op{ OP_LOCK, nodes - 1, 0 }, Op{ OP_UNLOCK, 0, 1 } };
            c.sched = { { 7, 0 } };
            Verdict v = run_case( c );
            stats.evaluations++;
            if ( v.nontrivial ) {
                stats.nontrivial++;
                stats.nt_hashes.insert( v.trace_hash );
            }
            if ( stats.samples.size() < 3 )
                stats.samples.push_back( to_text( c, s ));
            if ( v.kind == V_FAIL ) {
                stats.failc++;
                if ( !rc )
                    write_file( stats.prefix + ".failing.case", to_text( c, s ) + "# " + v.msg + "\n" );
                rc = 1;
            }
            else
                stats.pass++;
        }
        return rc;
    }
}
