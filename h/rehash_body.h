#ifndef CDSVERIF_H_REHASH_BODY_H
#define CDSVERIF_H_REHASH_BODY_H
// C17: resize and rehash never lose or duplicate elements for any hash functions.
// SEQUENTIAL differential harness (one thread, no scheduler): long programs over 64 keys against the runner's exact
// std::map model (every step) + full compare / bucket-table walk every 4 steps (no key lost, none stored twice, every
// element in the bucket its hash selects, item counter exact). The hash functions are GENERATED: constant, k & m, k >> s,
// k << s, k * odd, ~k, 7k+3, identity; tables, probe sets, thresholds and load factors start at their minimums.
//   Cuckoo          hash TUPLES: one member is always injective on the key space (with every member non-injective a
//                   CuckooSet legitimately resizes forever), the other one is free (degenerate allowed)
//   Striped + load-factor policies         any hash (the number of resizes is bounded by the item count)
//   Striped + single-bucket-size policies  injective hashes (a non-injective one makes every further insert double the table)
//   SplitListSet    any hash, FeldmanHashSet  injective hashes (the hash IS the key there)
// Growth guard: a case whose table exceeds 2^16 buckets is rejected (V_REJECT), counted in class "rejected_oversize".
// Body shared by rehash.cpp (Cuckoo, Striped over std containers, SplitListSet, FeldmanHashSet) and rehash_boost.cpp
// (#define REHASH_BOOST_PART: Striped over boost::container and boost::intrusive buckets). Include exactly once per TU.
#include "mapcommon_impl.h"
#include "map_adapters.h"
#ifndef REHASH_BOOST_PART
#   define LOCKHASH_NO_STRIPED_BOOST
#   define LOCKHASH_NO_STRIPED_INTRUSIVE
#else
#   define LOCKHASH_NO_CUCKOO
#   define LOCKHASH_NO_STRIPED_STD
#endif
#include "fam_lockhash.h"

#ifndef REHASH_BOOST_PART
#include <cds/container/michael_list_hp.h>
#include <cds/container/lazy_list_hp.h>
#include <cds/container/michael_kvlist_hp.h>
#include <cds/container/split_list_set.h>
#include <cds/container/split_list_map.h>
#include <cds/container/feldman_hashset_hp.h>
#include <cds/container/feldman_hashmap_hp.h>
#endif

using namespace mh;
using namespace fam_lockhash;

// cfg layout (after the runner's prefill / quiesce / hold)
enum { CF_INIT = 3, CF_PROBE, CF_THR, CF_FREE_KIND, CF_FREE_PAR, CF_INJ_KIND, CF_INJ_PAR, CF_ORDER, CF_POLICY };

namespace fam_lockhash {
    static HashFn injective_member( int kind, int par )
    {
        HashFn h;
        switch ( kind % 5 ) {
        case 0: h.kind = HK_IDENT; break;
        case 1: h.kind = HK_MUL; h.par = unsigned( par ); break;            // k * (2 par + 1)
        case 2: h.kind = HK_NOT; break;
        case 3: h.kind = HK_AFFINE; break;
        default: h.kind = HK_SHL; h.par = unsigned( par % 4 ); break;       // k << 0..3
        }
        return h;
    }
    static HashFn free_member( int kind, int par )
    {
        HashFn h;
        switch ( kind % 8 ) {
        case 0: h.kind = HK_CONST; h.par = unsigned( par ); break;
        case 1: h.kind = HK_AND; h.par = ( 1u << ( 1 + par % 3 )) - 1; break;      // k & 1 / 3 / 7
        case 2: h.kind = HK_AND; h.par = 1; break;                                  // k & 1 (the suspected-defect shape, extra weight)
        case 3: h.kind = HK_SHR; h.par = unsigned( 1 + par % 5 ); break;            // k >> 1..5
        case 4: h.kind = HK_SHL; h.par = unsigned( par % 8 ); break;                // k << 0..7
        case 5: h.kind = HK_MUL; h.par = unsigned( par ); break;
        case 6: h.kind = HK_IDENT; break;
        default: h.kind = HK_CONST; h.par = 0; break;
        }
        return h;
    }

    static bool low_bit_bijective( HashFn const& h )
    {
        return h.kind == HK_IDENT || h.kind == HK_MUL || h.kind == HK_NOT || h.kind == HK_AFFINE || ( h.kind == HK_SHL && h.par == 0 );
    }

    // variants named *_degenerate_tuple force the shapes the suspected CuckooSet::resize() defect needs
    static bool g_force_degenerate = false;
    static bool g_forbid_degenerate = false;

    Params decode_params( Case const& c, ContKind kind )
    {
        Params p;
        int init = cfg_at( c, CF_INIT, 0 ), probe = cfg_at( c, CF_PROBE, 0 ), thr = cfg_at( c, CF_THR, 0 );
        HashFn inj = injective_member( cfg_at( c, CF_INJ_KIND, 0 ), cfg_at( c, CF_INJ_PAR, 0 ));
        HashFn fre = free_member( cfg_at( c, CF_FREE_KIND, 0 ), cfg_at( c, CF_FREE_PAR, 0 ));
        p.init = size_t( 1 + ( init & 3 ));                 // Cuckoo 1..4 (Striped clamps to 16)
        p.probe = ( probe & 1 ) ? 4u : 2u;
        p.thr = unsigned( thr % 4 );                        // 0 = library default (size - 1), 1..3 clamped below the probe-set size
        p.rt_policy = size_t( 1 + cfg_at( c, CF_POLICY, 0 ) % 2 );
        switch ( kind ) {
        case CK_CUCKOO:
            if ( g_force_degenerate && low_bit_bijective( fre )) {
                // degenerate_tuple variants: the free member is never a bijection on the low bits
                fre.kind = ( cfg_at( c, CF_FREE_PAR, 0 ) & 1 ) ? HK_AND : HK_CONST;
                fre.par = ( fre.kind == HK_AND ) ? 1 : 0;
            }
            if ( g_forbid_degenerate ) {
                // clean variants: both members are bijections on the low k bits for every k (ident, k * odd, ~k, 7k + 3):
                // keys that share one probe set then share both, a class of keys never holds more than 2 * probe-set size
                // elements and no other class competes for its slots
                if ( !low_bit_bijective( fre ))
                    fre = injective_member( cfg_at( c, CF_FREE_KIND, 0 ) + 1, cfg_at( c, CF_FREE_PAR, 0 ));
                if ( fre.kind == HK_SHL )
                    fre.par = 0;
                if ( inj.kind == HK_SHL )
                    inj.par = 0;
            }
            if ( cfg_at( c, CF_ORDER, 0 ) & 1 ) {
                p.h[0] = inj;
                p.h[1] = fre;
            }
            else {
                p.h[0] = fre;
                p.h[1] = inj;
            }
            p.degenerate = !low_bit_bijective( fre ) || !low_bit_bijective( inj );
            break;
        case CK_STRIPED_THRESHOLD:
            p.h[0] = p.h[1] = inj;
            break;
        default:
            p.h[0] = p.h[1] = fre;
            p.degenerate = !fre.injective();
            break;
        }
        note_class( p.degenerate ? "hash_degenerate" : "hash_injective" );
        return p;
    }

    template <AdapterBase* ( *Make )( Case const& )>
    AdapterBase* degenerate( Case const& c )
    {
        g_force_degenerate = true;
        AdapterBase* a = Make( c );
        g_force_degenerate = false;
        return a;
    }
    template <AdapterBase* ( *Make )( Case const& )>
    AdapterBase* well_behaved( Case const& c )
    {
        g_forbid_degenerate = true;
        AdapterBase* a = Make( c );
        g_forbid_degenerate = false;
        return a;
    }
}

#ifndef REHASH_BOOST_PART
namespace {
    // ---- SplitListSet / FeldmanHashSet (HP): minimal adapters, used unless a family header provides them -----------
    struct sl_michael : cc::split_list::traits {
        typedef cc::michael_list_tag ordered_list;
        typedef LhHash<0> hash;
        typedef cds::atomicity::item_counter item_counter;
        struct ordered_list_traits : cc::michael_list::traits {
            typedef ItemCmp compare;
        };
    };
    struct sl_lazy : cc::split_list::traits {
        typedef cc::lazy_list_tag ordered_list;
        typedef LhHash<0> hash;
        typedef cds::atomicity::item_counter item_counter;
        struct ordered_list_traits : cc::lazy_list::traits {
            typedef ItemLess less;
        };
    };
    typedef cc::SplitListSet<HP, Item, sl_michael> SplitMichael;
    typedef cc::SplitListSet<HP, Item, sl_lazy> SplitLazy;

    // access to the protected bucket-count exponent (evidence: how often the table doubled)
    template <typename Base>
    struct SplitGrowth : Base {
        SplitGrowth( size_t nItemCount, size_t nLoadFactor ) : Base( nItemCount, nLoadFactor ) {}
        size_t log2_buckets() { return this->m_nBucketCountLog2.load( atomics::memory_order_relaxed ); }
    };
    template <typename Ad>
    struct SplitAd : Ad {
        template <typename... A>
        explicit SplitAd( A&&... a ) : Ad( std::forward<A>( a )... ) {}
        ~SplitAd() override
        {
            size_t l = this->s.log2_buckets();
            if ( l > 1 ) {
                note_class( "resized", l - 1 );
                note_class( "cases_resized" );
            }
        }
    };

    template <typename Set>
    AdapterBase* mk_split( Case const& c )
    {
        Params p = params() = decode_params( c, CK_OTHER );
        // the bucket table may grow up to nItemCount / nLoadFactor buckets, it starts with 2 (dynamic bucket table)
        size_t items = size_t( 8 ) << ( cfg_at( c, CF_INIT, 0 ) & 3 );      // 8..64
        return new SplitAd<GuardedSetAdapter<SplitGrowth<Set>, false>>( c, items, p.rt_policy );
    }

    // ---- maps with the guarded_ptr API: SplitListMap (update keeps the item), FeldmanHashMap (update replaces it) ---------
    template <typename Map, bool Replaces>
    struct GuardedMapAdapter : AdapterBase {
        typedef typename Map::value_type pair_type;
        Map s;
        int hold;
        template <typename... A>
        explicit GuardedMapAdapter( Case const& c, A&&... a ) : s( std::forward<A>( a )... ), hold( cfg_at( c, 2, 0 )) {}
        bool supports( int op ) const override { return op != O_UNLINK && op != O_EXTRACT_MIN && op != O_EXTRACT_MAX; }
        bool update_replaces() const override { return Replaces; }
        Res apply( int op, int key, int tag ) override
        {
            Res r;
            switch ( op ) {
            case O_INSERT:
                if ( tag & 1 ) {
                    pending_tag() = tag;
                    r.r = s.insert( key ) ? 1 : 0;
                    pending_tag() = -1;
                }
                else
                    r.r = s.insert( key, MVal( tag )) ? 1 : 0;
                break;
            case O_INSERT_F: {
                int calls = 0;
                r.r = s.insert_with( key, [&]( pair_type& pr ) { ++calls; pr.second.tag = tag; r.key = pr.first; } ) ? 1 : 0;
                r.fcalls = calls;
                break;
            }
            case O_UPDATE:
            case O_UPDATE_NOINS: {
                int calls = 0;
                std::pair<bool, bool> x;
                if constexpr ( Replaces ) {
                    x = s.update( key, [&]( pair_type& cur, pair_type* old ) {
                        ++calls;
                        cur.second.tag = tag;
                        r.fnew = old ? 0 : 1;
                        r.tag = old ? old->second.tag : tag;
                        r.key = cur.first;
                    }, op == O_UPDATE );
                }
                else {
                    x = s.update( key, [&]( bool bNew, pair_type& pr ) {
                        ++calls;
                        if ( bNew )
                            pr.second.tag = tag;
                        r.fnew = bNew ? 1 : 0;
                        r.tag = pr.second.tag;
                        r.key = pr.first;
                    }, op == O_UPDATE );
                }
                r.fcalls = calls;
                r.r = !x.first ? 0 : x.second ? 2 : 1;
                if ( r.r == 2 )
                    r.tag = tag;
                break;
            }
            case O_EMPLACE:
                r.r = s.emplace( key, tag ) ? 1 : 0;
                break;
            case O_ERASE:
                r.r = s.erase( key ) ? 1 : 0;
                break;
            case O_ERASE_F: {
                int calls = 0;
                r.r = s.erase( key, [&]( pair_type& pr ) { ++calls; r.tag = pr.second.tag; r.key = pr.first; } ) ? 1 : 0;
                r.fcalls = calls;
                break;
            }
            case O_EXTRACT: {
                typename Map::guarded_ptr gp( s.extract( key ));
                if ( gp ) {
                    r.r = 1;
                    r.tag = gp->second.tag;
                    r.key = gp->first;
                    hold_and_check( &gp->second, hold );
                }
                break;
            }
            case O_GET: {
                typename Map::guarded_ptr gp( s.get( key ));
                if ( gp ) {
                    r.r = 1;
                    r.tag = gp->second.tag;
                    r.key = gp->first;
                    hold_and_check( &gp->second, hold );
                }
                break;
            }
            case O_FIND_F: {
                int calls = 0;
                r.r = s.find( key, [&]( pair_type& pr ) { ++calls; r.tag = pr.second.tag; r.key = pr.first; } ) ? 1 : 0;
                r.fcalls = calls;
                break;
            }
            case O_CONTAINS:
                r.r = s.contains( key ) ? 1 : 0;
                break;
            default:
                r.unsupported = true;
                break;
            }
            return r;
        }
        bool has_counter() const override { return true; }
        size_t size() const override { return s.size(); }
        bool empty() const override { return s.empty(); }
        bool traverse( std::vector<int>& keys ) override
        {
            for ( auto it = s.begin(); it != s.end(); ++it )
                keys.push_back( it->first );
            return true;
        }
        void scan() override { HP::scan(); }
    };

    struct slm_michael : cc::split_list::traits {
        typedef cc::michael_list_tag ordered_list;
        typedef LhHash<0> hash;
        typedef cds::atomicity::item_counter item_counter;
        struct ordered_list_traits : cc::michael_list::traits {
            typedef std::less<int> less;
        };
    };
    typedef cc::SplitListMap<HP, int, MVal, slm_michael> SplitMapMichael;
    AdapterBase* mk_split_map( Case const& c )
    {
        Params p = params() = decode_params( c, CK_OTHER );
        size_t items = size_t( 8 ) << ( cfg_at( c, CF_INIT, 0 ) & 3 );
        return new SplitAd<GuardedMapAdapter<SplitGrowth<SplitMapMichael>, false>>( c, items, p.rt_policy );
    }

    struct feldman_map_traits : cc::feldman_hashmap::traits {
        typedef LhHash<0> hash;
        typedef cds::atomicity::item_counter item_counter;
    };
    typedef cc::FeldmanHashMap<HP, int, MVal, feldman_map_traits> FeldmanMap;

    // number of array nodes below the head array = how often a slot was expanded (evidence)
    template <typename S>
    void note_feldman_growth( S& s )
    {
        std::vector<cds::intrusive::feldman_hashset::level_statistics> ls;
        s.get_level_statistics( ls );
        size_t n = 0;
        for ( size_t i = 1; i < ls.size(); ++i )
            n += ls[i].array_node_count;
        if ( n ) {
            note_class( "resized", n );
            note_class( "cases_resized" );
        }
    }
    struct FeldmanMapAd : GuardedMapAdapter<FeldmanMap, true> {
        FeldmanMapAd( Case const& c, size_t hb, size_t ab ) : GuardedMapAdapter<FeldmanMap, true>( c, hb, ab ) {}
        ~FeldmanMapAd() override { note_feldman_growth( this->s ); }
    };
    AdapterBase* mk_feldman_map( Case const& c )
    {
        params() = decode_params( c, CK_STRIPED_THRESHOLD );    // injective hashes only: the hash is the key
        return new FeldmanMapAd( c, size_t( 4 + ( cfg_at( c, CF_INIT, 0 ) & 1 )), size_t( 2 + ( cfg_at( c, CF_PROBE, 0 ) & 1 )));
    }

    struct FItem : Item {
        size_t hash;
        FItem( int k, int t ) : Item( k, t ), hash( params().h[0].eval( k )) {}
    };
    struct FHashAccessor {
        size_t const& operator()( FItem const& i ) const { return i.hash; }
    };
    struct feldman_traits : cc::feldman_hashset::traits {
        typedef FHashAccessor hash_accessor;
        typedef cds::atomicity::item_counter item_counter;
    };
    typedef cc::FeldmanHashSet<HP, FItem, feldman_traits> FeldmanSet;

    // FeldmanHashSet: keyed by the hash value; update() REPLACES the stored object: f( new, old* )
    struct FeldmanAdapter : AdapterBase {
        FeldmanSet s;
        int hold;
        FeldmanAdapter( Case const& c, size_t head_bits, size_t array_bits ) : s( head_bits, array_bits ), hold( cfg_at( c, 2, 0 )) {}
        ~FeldmanAdapter() override { note_feldman_growth( s ); }
        static size_t H( int key ) { return params().h[0].eval( key ); }
        bool supports( int op ) const override { return op != O_UNLINK && op != O_EXTRACT_MIN && op != O_EXTRACT_MAX; }
        bool update_replaces() const override { return true; }
        Res apply( int op, int key, int tag ) override
        {
            Res r;
            switch ( op ) {
            case O_INSERT:
                r.r = s.insert( FItem( key, tag )) ? 1 : 0;
                break;
            case O_INSERT_F: {
                int calls = 0;
                r.r = s.insert( FItem( key, tag ), [&]( FItem& it ) { ++calls; r.key = it.key; } ) ? 1 : 0;
                r.fcalls = calls;
                break;
            }
            case O_UPDATE:
            case O_UPDATE_NOINS: {
                int calls = 0;
                std::pair<bool, bool> x = s.update( FItem( key, tag ), [&]( FItem& cur, FItem* old ) {
                    ++calls;
                    r.fnew = old ? 0 : 1;
                    r.tag = old ? old->tag : cur.tag;
                    r.key = cur.key;
                }, op == O_UPDATE );
                r.fcalls = calls;
                r.r = !x.first ? 0 : x.second ? 2 : 1;
                if ( r.r == 2 )
                    r.tag = tag;
                break;
            }
            case O_EMPLACE:
                r.r = s.emplace( key, tag ) ? 1 : 0;
                break;
            case O_ERASE:
                r.r = s.erase( H( key )) ? 1 : 0;
                break;
            case O_ERASE_F: {
                int calls = 0;
                r.r = s.erase( H( key ), [&]( FItem const& it ) { ++calls; r.tag = it.tag; r.key = it.key; } ) ? 1 : 0;
                r.fcalls = calls;
                break;
            }
            case O_EXTRACT: {
                FeldmanSet::guarded_ptr gp( s.extract( H( key )));
                if ( gp ) {
                    r.r = 1;
                    r.tag = gp->tag;
                    r.key = gp->key;
                    hold_and_check( &*gp, hold );
                }
                break;
            }
            case O_GET: {
                FeldmanSet::guarded_ptr gp( s.get( H( key )));
                if ( gp ) {
                    r.r = 1;
                    r.tag = gp->tag;
                    r.key = gp->key;
                    hold_and_check( &*gp, hold );
                }
                break;
            }
            case O_FIND_F: {
                int calls = 0;
                r.r = s.find( H( key ), [&]( FItem& it ) { ++calls; r.tag = it.tag; r.key = it.key; } ) ? 1 : 0;
                r.fcalls = calls;
                break;
            }
            case O_CONTAINS:
                r.r = s.contains( H( key )) ? 1 : 0;
                break;
            default:
                r.unsupported = true;
                break;
            }
            return r;
        }
        bool has_counter() const override { return true; }
        size_t size() const override { return s.size(); }
        bool empty() const override { return s.empty(); }
        bool traverse( std::vector<int>& keys ) override
        {
            for ( auto it = s.begin(); it != s.end(); ++it )
                keys.push_back( it->key );
            return true;
        }
        void scan() override { HP::scan(); }
    };
    AdapterBase* mk_feldman( Case const& c )
    {
        params() = decode_params( c, CK_STRIPED_THRESHOLD );    // injective hashes only: the hash is the key
        // head_bits >= 4 and array_bits >= 2 are enforced by the library: ask for the minimums (and one step above)
        return new FeldmanAdapter( c, size_t( 4 + ( cfg_at( c, CF_INIT, 0 ) & 1 )), size_t( 2 + ( cfg_at( c, CF_PROBE, 0 ) & 1 )));
    }
}
#endif

namespace {
#define RH_V( NAME, ... ) { NAME, mh::GC_NONE, 0, &fam_lockhash::__VA_ARGS__, false },
#define RH_WB( NAME, ... ) { NAME, mh::GC_NONE, 0, &fam_lockhash::well_behaved<&fam_lockhash::__VA_ARGS__>, false },
#define RH_DG( NAME, ... ) { NAME, mh::GC_NONE, 0, &fam_lockhash::degenerate<&fam_lockhash::__VA_ARGS__>, false },
    const MapVariant kVariants[] = {
#ifndef REHASH_BOOST_PART
        // Cuckoo, clean shapes: both hash functions are bijections on the low bits (see decode_params)
        RH_WB( "CuckooSet_list_eq_striping", mk_cuckoo_set<cus_list_eq_striping> )
        RH_WB( "CuckooSet_list_cmp_refinable_storehash", mk_cuckoo_set<cus_list_cmp_refinable_sh> )
        RH_WB( "CuckooSet_vector2_less_striping_storehash", mk_cuckoo_set<cus_vec2_less_striping_sh> )
        RH_WB( "CuckooSet_vector4_eq_refinable", mk_cuckoo_set<cus_vec4_eq_refinable> )
        RH_WB( "CuckooMap_list_less_refinable", mk_cuckoo_map<cum_list_less_refinable> )
        RH_WB( "CuckooMap_vector2_eq_striping_storehash", mk_cuckoo_map<cum_vec2_eq_striping_sh> )
        RH_WB( "ICuckooSet_list_base_eq_striping", mk_cuckoo_intrusive<CuNode_list0, icu_list_eq_striping> )
        RH_WB( "ICuckooSet_list_base_less_refinable_storehash2", mk_cuckoo_intrusive<CuNode_list2, icu_list_less_refinable_sh2> )
        RH_WB( "ICuckooSet_vector4_member_cmp_striping_storehash2", mk_cuckoo_intrusive<CuMNode_vec4_2, icu_mvec4_cmp_striping_sh2> )
        // Cuckoo, degenerate shapes: one member constant / k & 1 / k & m / k >> s / k << s, the other one injective on the key
        // space (possibly k << s). KNOWN to fail on the unchanged tree: CuckooSet::resize() drops an element when every
        // candidate probe set of the new table is full (see the report / replays/C17)
        RH_DG( "CuckooSet_degenerate_tuple", mk_cuckoo_set<cus_list_eq_striping> )
        RH_DG( "CuckooSet_vector2_degenerate_tuple", mk_cuckoo_set<cus_vec2_less_striping_sh> )
        RH_DG( "CuckooMap_degenerate_tuple", mk_cuckoo_map<cum_list_less_refinable> )
        RH_DG( "ICuckooSet_degenerate_tuple", mk_cuckoo_intrusive<CuNode_list2, icu_list_less_refinable_sh2> )
        // Striped over std containers
        RH_V( "StripedSet_std_list_less_striping_LF1", mk_striped_set<B_std_list, RP_LF1, MX_S, O_LESS> )
        RH_V( "StripedSet_std_list_cmp_refinable_T1_move", mk_striped_set<B_std_list, RP_T1, MX_R, O_CMP, O_MOVE> )
        RH_V( "StripedSet_std_vector_cmp_refinable_LF0_copy", mk_striped_set<B_std_vector, RP_LF0, MX_R, O_CMP, O_COPY> )
        RH_V( "StripedSet_std_vector_less_striping_T2_swap", mk_striped_set<B_std_vector, RP_T2, MX_S, O_LESS, O_SWAP> )
        RH_V( "StripedSet_std_set_striping_RAT0_swap", mk_striped_set<B_std_set, RP_RAT0, MX_S, O_SWAP> )
        RH_V( "StripedSet_std_unordered_set_refinable_T2", mk_striped_set<B_std_uset, RP_T2, MX_R> )
        RH_V( "StripedMap_std_list_less_refinable_LF1", mk_striped_map<BM_std_list, RP_LF1, MX_R, O_LESS> )
        RH_V( "StripedMap_std_map_striping_R8_copy", mk_striped_map<BM_std_map, RP_R8, MX_S, O_COPY> )
        RH_V( "StripedMap_std_unordered_map_refinable_T1_swap", mk_striped_map<BM_std_umap, RP_T1, MX_R, O_SWAP> )
        // SplitListSet / FeldmanHashSet
        { "SplitListSet_michael_HP", GC_HP, SplitMichael::c_nHazardPtrCount, &mk_split<SplitMichael>, false },
        { "SplitListSet_lazy_HP", GC_HP, SplitLazy::c_nHazardPtrCount, &mk_split<SplitLazy>, false },
        { "SplitListMap_michael_HP", GC_HP, SplitMapMichael::c_nHazardPtrCount, &mk_split_map, false },
        { "FeldmanHashSet_HP", GC_HP, FeldmanSet::c_nHazardPtrCount, &mk_feldman, false },
        { "FeldmanHashMap_HP", GC_HP, FeldmanMap::c_nHazardPtrCount, &mk_feldman_map, false },
#else
        RH_V( "StripedSet_boost_slist_less_striping_LF1", mk_striped_set<B_b_slist, RP_LF1, MX_S, O_LESS> )
        RH_V( "StripedSet_boost_list_cmp_refinable_T1_move", mk_striped_set<B_b_list, RP_T1, MX_R, O_CMP, O_MOVE> )
        RH_V( "StripedSet_boost_flat_set_striping_RAT0", mk_striped_set<B_b_flat_set, RP_RAT0, MX_S> )
        RH_V( "StripedSet_boost_stable_vector_less_refinable_LF0_swap", mk_striped_set<B_b_stable_vector, RP_LF0, MX_R, O_LESS, O_SWAP> )
        RH_V( "StripedSet_boost_vector_cmp_striping_T2_copy", mk_striped_set<B_b_vector, RP_T2, MX_S, O_CMP, O_COPY> )
        RH_V( "StripedSet_boost_set_refinable_R8", mk_striped_set<B_b_set, RP_R8, MX_R> )
        RH_V( "StripedSet_boost_unordered_set_striping_T1_copy", mk_striped_set<B_b_uset, RP_T1, MX_S, O_COPY> )
        RH_V( "StripedMap_boost_slist_less_refinable_T1", mk_striped_map<BM_b_slist, RP_T1, MX_R, O_LESS> )
        RH_V( "StripedMap_boost_list_cmp_striping_LF1_swap", mk_striped_map<BM_b_list, RP_LF1, MX_S, O_CMP, O_SWAP> )
        RH_V( "StripedMap_boost_flat_map_refinable_R16", mk_striped_map<BM_b_flat_map, RP_R16, MX_R> )
        RH_V( "StripedMap_boost_map_striping_T0_swap", mk_striped_map<BM_b_map, RP_T0, MX_S, O_SWAP> )
        RH_V( "StripedMap_boost_unordered_map_refinable_LF0", mk_striped_map<BM_b_umap, RP_LF0, MX_R> )
        RH_V( "IStripedSet_bi_list_less_striping_LF1", mk_striped_intrusive<N_bi_list, BI_list, RP_LF1, MX_S, O_LESS> )
        RH_V( "IStripedSet_bi_slist_member_cmp_refinable_T1", mk_striped_intrusive<N_bi_slist, BI_slist, RP_T1, MX_R, O_CMP> )
        RH_V( "IStripedSet_bi_set_striping_R8", mk_striped_intrusive<N_bi_set, BI_set, RP_R8, MX_S> )
        RH_V( "IStripedSet_bi_avl_set_member_refinable_T2", mk_striped_intrusive<N_bi_avl, BI_avl_set, RP_T2, MX_R> )
        RH_V( "IStripedSet_bi_sg_set_refinable_LF0", mk_striped_intrusive<N_bi_bs, BI_sg_set, RP_LF0, MX_R> )
        RH_V( "IStripedSet_bi_splay_set_striping_RAT0", mk_striped_intrusive<N_bi_bs, BI_splay_set, RP_RAT0, MX_S> )
        RH_V( "IStripedSet_bi_unordered_set_striping_T1", mk_striped_intrusive<N_bi_uset, BI_uset, RP_T1, MX_S, O_BUF8> )
#endif
    };
#ifndef REHASH_BOOST_PART
    const char* const kName = "rehash";
#else
    const char* const kName = "rehash_boost";
#endif
    const MapHarnessConfig kConfig = { kName, kVariants, sizeof( kVariants ) / sizeof( kVariants[0] ), 63, true, false };
}

namespace cdsverif {
    Schema const& harness_schema()
    {
        static Schema s = []() {
            // make_map_schema() evaluates 1 << (max_key + 1): build the schema for 30 keys and widen the key range afterwards
            MapHarnessConfig small = kConfig;
            small.max_key = 29;
            Schema x = make_map_schema( small,
                { { "init", 0, 3 }, { "probe", 0, 1 }, { "thr", 0, 3 }, { "free_kind", 0, 7 }, { "free_par", 0, 7 }, { "inj_kind", 0, 4 }, { "inj_par", 0, 3 },
                    { "order", 0, 1 }, { "policy", 0, 1 } },
                "sequential: the program hit a present key, an absent key and removed an element (class counters: resized = table doublings, "
                "hash_degenerate / hash_injective = generated hash family)" );
            for ( auto& o : x.ops )
                if ( o.amax == small.max_key )
                    o.amax = kConfig.max_key;
            x.max_ops_quick = 120;
            x.max_ops_thorough = 200;
            // grow: more insertions than removals
            x.ops[O_INSERT].weight = 12;
            x.ops[O_UPDATE].weight = 6;
            x.ops[O_EMPLACE].weight = 3;
            return x;
        }();
        return s;
    }
    Verdict run_case( Case const& c )
    {
        fam_lockhash::oversize() = false;
        Verdict v = run_map_case( kConfig, c );
        if ( fam_lockhash::oversize()) {
            v.kind = V_REJECT;
            v.msg.clear();
            v.classes["rejected_oversize"] += 1;
        }
        return v;
    }
}

#endif
