"""Property table: which harnesses decide which property, and with what budgets.
quick / thorough = total number of generated cases over all workers of that harness;
fuzz_runs = libFuzzer executions in the thorough tier (0 = none)."""

SC = "Schedules are explored by a deterministic token scheduler: every libcds atomic operation, mutex/condvar call and back-off is a scheduling point."

SMR_ASSUME = ("Oracle: harness bookkeeping of validated guards (protect/assign+recheck/copy/GuardArray) with logical timestamps; a disposal is a violation when a guard "
              "established before the reclaiming API call began still holds the object; per-object disposer counters; memory really freed on disposal (ASan); "
              "promptness clause checked only for explicit scan() calls that ran without any token switch while no other thread was manipulating a guard.")

PROPS = {
    "C01": {
        "harnesses": [{"name": "smr", "variants": [0, 1], "quick": 480000, "thorough": 6000000, "fuzz_runs": 600000}],
        "assumptions": [SC, SMR_ASSUME],
    },
    "C02": {
        "harnesses": [{"name": "smr", "variants": [2], "quick": 320000, "thorough": 4000000, "fuzz_runs": 400000}],
        "assumptions": [SC, SMR_ASSUME],
    },
    "C03": {
        "harnesses": [{"name": "smr", "variants": [0, 1, 2], "quick": 480000, "thorough": 6000000, "fuzz_runs": 600000}],
        "assumptions": [SC, SMR_ASSUME],
    },
    "C06": {
        "harnesses": [
            {"name": "queue_ms", "quick": 160000, "thorough": 2400000, "fuzz_runs": 800000, "weight": 3},
        ],
        "assumptions": [SC, "Oracle: Wing-Gong linearizability search against a sequential FIFO model, including the final drain; intrusive nodes: disposer exactly once per node after SMR destruction, link part ASan-poisoned after disposal."],
    },
}

PENDING = "check not built yet in this round; the design in DESIGN.md section 5 applies and the harness is being written"
NOT_APPLICABLE = {("C%02d" % i): PENDING for i in range(1, 29)}

_SCHED_NOTE = ("Trusted base: the token scheduler and pthread interposers in rt/vsched.cpp, the instrumented atomics header, the linearizability checker rt/lin.h (self-tested), "
               "ASan/UBSan, rapidcheck, libFuzzer. Assumes sequentially consistent interleavings at atomic-operation granularity; bounded threads/operations/pre-emptions.")

MANIFEST_TEXT = {
    "C06": {
        "text": "Bounded exploration: generated (variant, program, schedule) cases for MSQueue/MoirQueue/BasketQueue/OptimisticQueue (container + intrusive, HP + DHP, item counter, seq_cst) each checked for linearizability against a sequential FIFO including the final drain; held on every case explored. Exploration is the right level because the property quantifies over all interleavings and no finite enumeration of them exists for the real code.",
        "note": _SCHED_NOTE,
        "technique": "schedule-controlled property-based testing (rapidcheck + libFuzzer) with a linearizability oracle",
    },
}
