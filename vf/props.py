"""Property table: which harnesses decide which property, and with what budgets.
quick / thorough = total number of generated cases over all workers of that harness;
fuzz_runs = libFuzzer executions in the thorough tier (0 = none)."""

SC = "Schedules are explored by a deterministic token scheduler: every libcds atomic operation, mutex/condvar call and back-off is a scheduling point."

SMR_ASSUME = ("Oracle: harness bookkeeping of validated guards (protect/assign+recheck/copy/GuardArray) with logical timestamps; a disposal is a violation when a guard "
              "established before the reclaiming API call began still holds the object; per-object disposer counters; memory really freed on disposal (ASan); "
              "promptness clause checked only for explicit scan() calls that ran without any token switch while no other thread was manipulating a guard.")

RCU_ASSUME = ("Oracle: per-object snapshot of the read-side critical sections open when retire_ptr/batch_retire was called; a disposal while one of them is still open, a synchronize() "
              "returning while a section open at its call is still open, or an object fetched inside a section found disposed before the outermost unlock is a violation; "
              "per-object disposer counters after the singleton is destroyed. Signals of the signal-handling flavour are delivered by the scheduler at the target's next scheduling point. "
              "Buffer capacities 2,3,4,8 with the default Vyukov buffer (capacity 1 is outside that buffer's precondition).")

BOOST = ["-lboost_thread", "-lboost_system"]
FC_ASSUME = ("Flat-combining containers run their client threads as real pthreads that exit before the container is destroyed (thread exit and the boost TLS cleanup are scheduled); "
             "oracle: Wing-Gong linearizability incl. the final drain, size()/empty() at quiescence.")
MAP_ASSUME = ("Oracle: Wing-Gong linearizability against a sequential map whose items carry the tag of the insertion that created them (which insertion an operation observed is checked), "
              "functor-call contract of insert/update/erase/find, quiescent-point checks (traversal exact and ordered, size()/empty(), structure checks), intrusive items disposed exactly once; "
              "guarded/raw/exempt pointers are dereferenced at scheduling points before release following each container's documented protocol.")

PROPS = {
    "C01": {
        "harnesses": [{"name": "smr", "variants": [0, 1], "quick": 960000, "thorough": 6000000, "fuzz_runs": 600000}],
        "assumptions": [SC, SMR_ASSUME],
    },
    "C02": {
        "harnesses": [{"name": "smr", "variants": [2], "quick": 640000, "thorough": 4000000, "fuzz_runs": 400000}],
        "assumptions": [SC, SMR_ASSUME],
    },
    "C03": {
        "harnesses": [{"name": "smr", "variants": [0, 1, 2], "quick": 960000, "thorough": 6000000, "fuzz_runs": 600000}],
        "assumptions": [SC, SMR_ASSUME],
    },
    "C04": {
        "harnesses": [{"name": "rcu", "variants": [0, 1, 3], "quick": 600000, "thorough": 4000000, "fuzz_runs": 400000, "weight": 3},
                      # general_threaded starts a real reclamation thread per case: much slower
                      {"name": "rcu", "variants": [2], "quick": 48000, "thorough": 400000, "fuzz_runs": 40000, "weight": 1}],
        "assumptions": [SC, RCU_ASSUME],
    },
    "C05": {
        "harnesses": [{"name": "rcu", "variants": [0, 1, 3], "quick": 600000, "thorough": 4000000, "fuzz_runs": 400000, "weight": 3},
                      # general_threaded starts a real reclamation thread per case: much slower
                      {"name": "rcu", "variants": [2], "quick": 48000, "thorough": 400000, "fuzz_runs": 40000, "weight": 1}],
        "assumptions": [SC, RCU_ASSUME],
    },
    "C07": {
        "harnesses": [{"name": "vyukov", "quick": 1000000, "thorough": 4000000, "fuzz_runs": 400000}],
        "assumptions": [SC, "Oracle: Wing-Gong linearizability against a bounded FIFO model (failed enqueue only on a full state, failed dequeue only on an empty one, front()/pop_front() of the single-consumer variant as front-read + dequeue), size()/empty() at quiescence, intrusive node canaries."],
    },
    "C08": {
        "harnesses": [{"name": "segq", "quick": 800000, "thorough": 4000000, "fuzz_runs": 400000}],
        "assumptions": [SC, "Oracle: history invariants in their conservative reading (conservation, quasi-factor bound with q.quasi_factor(), emptiness rule), final drain/clear by main, per-node disposer accounting for the intrusive variants; deterministic permutation generators replace the random one through the documented trait."],
    },
    "C09": {
        "harnesses": [{"name": "stack", "quick": 800000, "thorough": 4000000, "fuzz_runs": 400000,
                       "extra": {"quick": [["elim2", 400, "1,2,4,7,13,15", "0,1"]], "thorough": [["elim2", 400, "all", "all"]]}, "weight": 3},
                      {"name": "fc_containers", "variants": list(range(25, 36)), "quick": 12000, "thorough": 120000, "fuzz_runs": 40000, "weight": 1}],
        "libs": BOOST,
        "assumptions": [SC, FC_ASSUME, "Oracle: Wing-Gong linearizability against a LIFO model incl. the final drain; item accounting; intrusive nodes disposed exactly once; the elimination random engine is replaced by a case-seeded one through the documented trait."],
    },
    "C10": {
        "harnesses": [{"name": "fc_containers", "variants": list(range(36, 44)), "quick": 24000, "thorough": 240000, "fuzz_runs": 60000}],
        "libs": BOOST, "assumptions": [SC, FC_ASSUME],
    },
    "C11": {
        "harnesses": [{"name": "mspq", "quick": 640000, "thorough": 3200000, "fuzz_runs": 400000, "weight": 3},
                      {"name": "fc_containers", "variants": list(range(44, 49)), "quick": 12000, "thorough": 120000, "fuzz_runs": 40000, "weight": 1}],
        "libs": BOOST, "assumptions": [SC, FC_ASSUME, "MSPriorityQueue: conservation, conservative push-failure/empty-pop rules, drain order; linearizability against a bounded max-priority queue for every history in which no push overlaps a pop (phased programs and qualifying free ones)."],
    },
    "C12": {
        "harnesses": [{"name": "ringbuf", "quick": 800000, "thorough": 4000000, "fuzz_runs": 400000}],
        "assumptions": [SC, "Exactly one producer and one consumer thread. Oracle: exact sequence/size/bytes of every record, failure rules in their conservative reading against a byte-exact model of free space (incl. the unused tail of WeakRingBuffer<void>); record sizes stay inside the precondition the code asserts (calc_real_size(size) < capacity())."],
    },
    "C13": {
        "harnesses": [{"name": "lists_hp", "quick": 408000, "thorough": 2400000, "fuzz_runs": 300000},
                      {"name": "lists_rcu", "quick": 204000, "thorough": 1600000, "fuzz_runs": 200000}],
        "assumptions": [SC, MAP_ASSUME],
    },
    "C14": {
        "harnesses": [{"name": "hashsets_a", "quick": 240000, "thorough": 1600000, "fuzz_runs": 200000},
                      {"name": "hashsets_b", "quick": 240000, "thorough": 1600000, "fuzz_runs": 200000},
                      {"name": "hashsets_c", "quick": 150000, "thorough": 1000000, "fuzz_runs": 120000}],
        "assumptions": [SC, MAP_ASSUME, "Hash families: identity, constant, low-bit-sharing, shared-prefix; split-list tables start at 2 buckets with load factor 1-2 so that they grow and initialise buckets recursively during the concurrent phase; Feldman head/array bits at their minimums (4/2)."],
    },
    "C15": {
        "harnesses": [{"name": "skiplist", "quick": 240000, "thorough": 1200000, "fuzz_runs": 160000},
                      {"name": "trees", "variants": list(range(0, 18)), "quick": 240000, "thorough": 1200000, "fuzz_runs": 160000}],
        "assumptions": [SC, MAP_ASSUME, "extract_min/extract_max are judged by the statement's relaxed contract: 'erase k, k present' transitions plus a conservative counting side condition for 'a smaller (larger) key / any key was present throughout the call'. Skip-list tower heights are forced by a case-driven level generator. Variants 18-19 (Bronson relaxed_insert) are excluded, see known_findings.json; a Bronson extract_min/max livelock shows up as inconclusive cases (liveness is not judged)."],
    },
    "C16": {
        "harnesses": [{"name": "lockhash", "quick": 320000, "thorough": 1600000, "fuzz_runs": 200000},
                      {"name": "lockhash_boost", "quick": 320000, "thorough": 1600000, "fuzz_runs": 200000},
                      {"name": "lockhash_wide", "quick": 160000, "thorough": 1600000, "fuzz_runs": 100000}],
        "assumptions": [SC, MAP_ASSUME, "lockhash_wide: the Cuckoo containers again with 8 keys (hash tuples with a low-bit bijection only) and with every key-predicate and hash-functor call as an extra scheduling point, i.e. pre-emption inside the critical sections where probe sets are plain memory: a probe set modified without its cell lock shows up as a lost or duplicated element. Lock-discipline oracle in that harness: the mutex policies are wrapped so that each thread knows the hash arrays whose cell locks it holds; a key predicate called while only cell locks are held must compare keys one of whose two probe sets is covered by a held lock cell (necessary condition of the locking protocol; class counter lock_discipline_checks).", "std::mutex / std::recursive_mutex traffic is scheduled through the pthread interposers. Tiny tables: Cuckoo initial size 1-4 with probe-set size 2-4 and colliding injective hash tuples; Striped resizing policies single_bucket_size_threshold<0..2> and rational load factors (StripedSet clamps the initial capacity to 16, so resizes are forced by the policy and a shifted hash). A probe walks the bucket tables at quiescent points (no key twice, element in the bucket its hash selects, probe-set bounds, size() = linked elements)."],
    },
    "C17": {
        "harnesses": [{"name": "rehash", "variants": list(range(0, 9)) + list(range(13, 27)), "quick": 120000, "thorough": 800000, "fuzz_runs": 0},
                      {"name": "rehash_boost", "quick": 100000, "thorough": 1000000, "fuzz_runs": 0},
                      {"name": "rehash_big", "quick": 160000, "thorough": 640000, "fuzz_runs": 0}],
        "assumptions": ["rehash_big: large initial capacities (1024..16384 buckets, default constructor) and runs of up to 128 consecutive keys out of 0..1023 so that multi-segment bucket tables, hundreds of initialised buckets and deep Feldman arrays are reached; std::set differential with a full re-check of every key ever used after each run.",
                        "Single thread, no scheduler: sequences of up to 120/200 operations over keys 0..63 with generated degenerate hash families (constant, k & m, k >> s, k << s, k * odd, identity); oracle: exact std::map differential after every step, full content compare every 4 steps, bucket-table probe. For Cuckoo tuples at least one member is injective (all-constant tuples make CuckooSet resize for ever: outside every real caller's domain).",
                        "The four Cuckoo variants with low-entropy tuples (rehash variants 9-12) are excluded from the generated campaign: they reproduce the open finding cuckoo-resize-drops-element within a few thousand cases; its reproducers are replayed and reported as KNOWN-FINDING."],
    },
    "C18": {
        "harnesses": [{"name": "lists_hp", "quick": 204000, "thorough": 1200000, "fuzz_runs": 0},
                      {"name": "hashsets_b", "quick": 120000, "thorough": 800000, "fuzz_runs": 0},
                      {"name": "skiplist", "quick": 160000, "thorough": 800000, "fuzz_runs": 0},
                      {"name": "trees", "variants": list(range(0, 18)), "quick": 160000, "thorough": 800000, "fuzz_runs": 0},
                      {"name": "seq_skiplist", "quick": 20000, "thorough": 200000, "fuzz_runs": 0},
                      {"name": "seq_trees", "variants": list(range(0, 18)), "quick": 20000, "thorough": 200000, "fuzz_runs": 0}],
        "assumptions": [SC, "Quiescent points: barriers inside the concurrent phase (all workers parked) and the end of every case, plus every 4th step of sequential histories. Oracle: traversal visits exactly the keys contains() finds, once, strictly increasing for ordered containers (split lists: strictly increasing split-order values, dummies even / regular odd, walked through a derived probe class); size()/empty() agree where a counter is configured; skip list: every level a strictly increasing sub-list of the level below without marked pointers; EllenBinTree check_consistency() + leaf-oriented BST walk; Bronson check_consistency() + BST/parent/version walk, and strict AVL shape (true heights, |hL-hR| <= 1, stored == true height) only while no removal has succeeded in the container (relaxed balance after removals is by design and the library's own check does not test balance)."],
    },
    "C19": {
        "harnesses": [{"name": "iter", "variants": list(range(0, 15)), "quick": 600000, "thorough": 2000000, "fuzz_runs": 200000}],
        "assumptions": [SC, "Oracle: the element an iterator is positioned on keeps its canary/key/tag (really freed memory, ASan); completeness for keys present and untouched during the whole pass (exactly once + order for IterableList, exactly once for hash sets over it, at least once for Feldman); erase_at linearised as 'erase exactly this tag' in the updaters' history.",
                        "Variants 4-7 (iterators of MichaelHashSet/SplitListSet over IterableList, HP and DHP) stay in the campaign; their rare use-after-free crashes (about 1 in 15000 cases) are matched against the open known finding iterable-iterator-hazard-copy-race and reported as KNOWN-FINDING, any other failure of those variants is a violation."],
    },
    "C20": {
        "harnesses": [{"name": "seq_queues", "quick": 160000, "thorough": 1600000, "fuzz_runs": 0},
                      {"name": "seq_lists_hp", "quick": 60000, "thorough": 600000, "fuzz_runs": 0},
                      {"name": "seq_lists_rcu", "quick": 40000, "thorough": 400000, "fuzz_runs": 0},
                      {"name": "seq_hashsets_a", "quick": 40000, "thorough": 400000, "fuzz_runs": 0},
                      {"name": "seq_hashsets_b", "quick": 40000, "thorough": 400000, "fuzz_runs": 0},
                      {"name": "seq_hashsets_c", "quick": 30000, "thorough": 300000, "fuzz_runs": 0},
                      {"name": "seq_skiplist", "quick": 30000, "thorough": 300000, "fuzz_runs": 0},
                      {"name": "seq_trees", "variants": list(range(0, 18)), "quick": 30000, "thorough": 300000, "fuzz_runs": 0},
                      {"name": "seq_lockhash", "quick": 30000, "thorough": 300000, "fuzz_runs": 0},
                      {"name": "seq_lockhash_boost", "quick": 30000, "thorough": 300000, "fuzz_runs": 0}],
        "libs": BOOST,
        "assumptions": ["Single thread, no scheduler. Oracle: step-wise differential against std::map / std::deque / std::multiset reference models (return values, observed tags, functor-call contract, update triple, size()/empty()/clear(), pop/extract order, full content compare every 4 steps, disposer count per intrusive item)."],
    },
    "C21": {
        "harnesses": [{"name": "freelist", "quick": 1440000, "thorough": 4800000, "fuzz_runs": 600000}],
        "assumptions": [SC, "Oracle: ownership map (list / holder) updated by the client, holder stamps re-checked at generated points, exact drain at quiescence; type-stable nodes; CachedFreeList slot selection made deterministic by overriding the hash of the calling thread's id."],
    },
    "C22": {
        "harnesses": [{"name": "locks", "quick": 960000, "thorough": 3200000, "fuzz_runs": 400000,
                       "extra": {"quick": [["rawpool"]], "thorough": [["rawpool"]]}}],
        "assumptions": [SC, "Oracle: occupancy counters and owner ids around every critical section, well-formed programs by construction (unlock only by the holder, LIFO, ordered acquisition for non-reentrant kinds); pool_monitor: lock pointer stable while held, distinct for simultaneously held nodes, refcount bounds, check_free() at quiescence."],
    },
    "C23": {
        "harnesses": [{"name": "fckernel", "quick": 48000, "thorough": 200000, "fuzz_runs": 40000}],
        "libs": BOOST,
        "assumptions": [SC, "A minimal flat-combining container over the real kernel with a tracking allocator for publication records, a holder-recording lock wrapper and plain-counter statistics; client threads (and children they spawn) are real pthreads whose exit runs the kernel's TLS cleanup under the scheduler."],
    },
    "C24": {
        "harnesses": [{"name": "pools", "quick": 960000, "thorough": 4800000, "fuzz_runs": 400000}],
        "assumptions": [SC, "Oracle: ownership map + per-holder stamps re-checked while held; spurious bad_alloc / heap fall-back allowed while other holders may own everything; exact recycling checks at quiescence."],
    },
    "C26": {
        "harnesses": [{"name": "pure_brc", "quick": 100000, "thorough": 1000000, "fuzz_runs": 0,
                       "extra": {"quick": [["dyck", 22], ["dyck", 20, 62], ["dyck", 20, 2046], ["dyck", 20, 65534], ["dyck", 20, 1048574], ["ramp", 20]],
                                 "thorough": [["dyck", 26], ["dyck", 24, 1022], ["dyck", 24, 32766], ["dyck", 24, 1048574], ["dyck", 20, 62], ["dyck", 20, 2046], ["ramp", 20]]}}],
        "assumptions": ["Pure function, no scheduler. The statement's 'first n slots are a permutation of 1..n' holds literally only at full levels (n = 2^k - 1: the first five slots are 1,2,3,4,6); the oracle checks the level-wise truth (slot in level floor(log2 n), not outstanding, parent outstanding, exact {1..n} at full levels, equality with the bit-reversed reference position) and the exact undo of dec()."],
    },
    "C27": {
        "harnesses": [{"name": "pure_splitorder", "variants": [0, 1, 2], "quick": 200000, "thorough": 2000000, "fuzz_runs": 0, "weight": 3,
                       "extra": {"quick": [["table", 0], ["table", 1], ["table", 6], ["table", 12], ["parents", 0, 1]],
                                 "thorough": [["table", 0], ["table", 1], ["table", 6], ["table", 12], ["table", 16]] + [["parents", i, 16, 28] for i in range(16)]}},
                      {"name": "pure_splitorder", "variants": [3, 4, 5], "quick": 1600, "thorough": 16000, "fuzz_runs": 0, "weight": 1}],
        "assumptions": ["Pure functions, no scheduler. Oracle: reference bit reversal, lemma predicates of the statement, independently sorted dummy list for k <= 12/16, 'clear the most significant set bit' reference for parent_bucket; bucket numbers >= 2^31 run in a forked child so that a sanitizer abort becomes a verdict naming the input."],
    },
    "C28": {
        "harnesses": [{"name": "pure_feldman", "variants": list(range(0, 15)), "quick": 120000, "thorough": 1200000, "fuzz_runs": 0, "weight": 4},
                      {"name": "pure_feldman", "variants": [15], "quick": 600, "thorough": 6000, "fuzz_runs": 0, "weight": 1}],
        "assumptions": ["Mostly pure functions; the container layer builds a FeldmanHashSet over HP single-threaded. Configurations rejected by the constructor's own is_correct assertions are counted as rejected, byte-array hashes with head_bits >= 33 are outside the splitter's documented 32-bit cut limit and excluded."],
    },
    "C25": {
        "harnesses": [{"name": "pure_bits", "quick": 160000, "thorough": 2400000, "fuzz_runs": 0,
                       "extra": {"quick": [["bytes"]] + [["rev32s", i, 16, 16] for i in range(16)],
                                 "thorough": [["bytes"]] + [["rev32", i, 16] for i in range(16)]}}],
        "assumptions": ["Pure functions, no scheduler. Oracle: naive bit-loop reference implementations, involution, cross-agreement of swar/lookup/muldiv, generic and amd64 bitop paths, reference cursor over the little-endian byte image for the splitters (source placed at the end of a heap block, ASan/UBSan on).",
                        "64-bit variants are sampled (structured + random), 32-bit variants are enumerated by the rev32/rev32s extra jobs."],
    },
    "C06": {
        "harnesses": [
            {"name": "queue_ms", "quick": 800000, "thorough": 4000000, "fuzz_runs": 600000, "weight": 2},
            # BasketQueue only: its basket path needs two exact pre-emptions plus a thread order, too rare when diluted over 22 variants; generated with the thorough tier's bounds in both tiers
            {"name": "queue_ms", "variants": [6, 7, 8, 9, 18, 19], "bounds": "thorough", "quick": 500000, "thorough": 1500000, "fuzz_runs": 0, "weight": 2},
            {"name": "fc_containers", "variants": list(range(0, 25)), "quick": 18000, "thorough": 200000, "fuzz_runs": 60000, "weight": 2},
        ],
        "libs": BOOST,
        "assumptions": [SC, "Oracle: Wing-Gong linearizability search against a sequential FIFO model, including the final drain; intrusive nodes: disposer exactly once per node after SMR destruction, link part ASan-poisoned after disposal."],
    },
}

PENDING = "check not built yet in this round; the design in DESIGN.md section 5 applies and the harness is being written"
NOT_APPLICABLE = {("C%02d" % i): PENDING for i in range(1, 29)}

_SCHED_NOTE = ("Trusted base: the token scheduler and pthread interposers in rt/vsched.cpp, the instrumented atomics header, the linearizability checker rt/lin.h (self-tested), "
               "ASan/UBSan, rapidcheck, libFuzzer. Assumes sequentially consistent interleavings at atomic-operation granularity; bounded threads/operations/pre-emptions. "
               "In the container harnesses the hazard-pointer collection loop of an HP/DHP scan() is one scheduler step (excludes the open hazard-copy finding by construction); the SMR harness of C01-C03 keeps it pre-emptible.")

_SMR_TEXT = ("Bounded exploration of generated client programs (protect/assign/copy/deref/release, swap+retire, bulk retire around the array capacity, explicit scan, detach/re-attach, "
             "GuardArray, DHP guard-block extension) x generated schedules against harness bookkeeping of validated guards and per-object disposer accounting; held on every case explored.")
_RCU_TEXT = ("Bounded exploration of generated reader/writer programs (nested read-side sections, retire_ptr, batch_retire, synchronize, bulk retire past the buffer capacity) x generated "
             "schedules for all four flavours incl. the reclamation thread and simulated signal delivery; held on every case explored.")

MANIFEST_TEXT = {
    "C16": {"text": "Bounded exploration of generated client programs x schedules over CuckooSet/Map and intrusive CuckooSet (striping and refinable policies, list and vector<2|4> probe sets, stored hashes) and StripedSet/Map and intrusive StripedSet (striping, refinable; 26 bucket adapters from std, boost::container and boost::intrusive) with tiny tables so that resizes interleave with the operations: linearizability with insertion tags, functor contract, bucket-table probe at quiescent points; for the Cuckoo containers additionally 8 keys with pre-emption inside the critical sections and a lock-discipline oracle over wrapped mutex policies. Held on every case explored.",
            "note": _SCHED_NOTE, "technique": "schedule-controlled property-based testing (rapidcheck + libFuzzer) with a linearizability oracle"},
    "C17": {"text": "Generated single-thread insert/erase/update sequences over 64 keys with generated degenerate hash families and minimal capacities/thresholds/load factors over Cuckoo, Striped (std and boost adapters), SplitList and Feldman containers, compared step by step with std::map plus a bucket-table probe. Held on every sequence explored (one open finding for low-entropy Cuckoo tuples, see known_findings.json).",
            "note": "Trusted base: the std::map reference model, the bucket-table probes, ASan/UBSan, rapidcheck.", "technique": "model-based (stateful) property-based testing with rapidcheck: differential against std::map"},
    "C15": {"text": "Bounded exploration of generated client programs x schedules over SkipListSet/Map (HP, DHP, four RCU flavours, nogc; forced tower heights), EllenBinTreeSet/Map (HP, DHP, RCU) and BronsonAVLTreeMap (value + pointer variants, injecting and pool monitors): linearizability with insertion tags, relaxed extract_min/max contract, functor contract, quiescent structure checks. Held on every case explored.",
            "note": _SCHED_NOTE, "technique": "schedule-controlled property-based testing (rapidcheck + libFuzzer) with a linearizability oracle"},
    "C18": {"text": "Quiescent-point invariants checked after generated concurrent histories (barrier points inside the run and the end of each case) and after generated sequential histories for lists, split lists, skip lists, EllenBinTree and BronsonAVLTreeMap, through iterators, the containers' own consistency checks and derived probe classes that walk the raw structure. Held at every quiescent point explored.",
            "note": _SCHED_NOTE, "technique": "schedule-controlled and sequential property-based testing (rapidcheck) with structural-invariant oracles at quiescent points"},
    "C10": {"text": 'Bounded exploration of generated push_front/push_back/pop_front/pop_back programs x schedules over FCDeque (std::deque and boost::container::deque, elimination on/off, combine passes 1..4, compact factors 1,2,1024, all wait strategies) with a deque linearizability check; client threads are real threads whose exit is scheduled. Held on every case explored.', "note": _SCHED_NOTE, "technique": 'schedule-controlled property-based testing (rapidcheck + libFuzzer) with a linearizability oracle'},
    "C11": {"text": 'Bounded exploration of generated push/pop programs x schedules over FCPriorityQueue (linearizability against a max-priority queue with ties) and MSPriorityQueue (conservation, conservative failure rules, bounded max-PQ linearizability for histories without push/pop overlap, capacities 1..16). Held on every case explored.', "note": _SCHED_NOTE, "technique": 'schedule-controlled property-based testing (rapidcheck + libFuzzer) with a linearizability oracle'},
    "C13": {"text": 'Bounded exploration of generated client programs x schedules over MichaelList, LazyList and IterableList as value sets, key-value lists and intrusive lists with HP, DHP, the four RCU flavours and nogc (62 variants): linearizability with insertion tags, functor contract, quiescent checks. Held on every case explored.', "note": _SCHED_NOTE, "technique": 'schedule-controlled property-based testing (rapidcheck + libFuzzer) with a linearizability oracle'},
    "C14": {"text": 'Bounded exploration of generated client programs x schedules over MichaelHashSet/Map, SplitListSet/Map (static + expandable tables growing during the run) and FeldmanHashSet/Map (minimal head/array bits, prefix-sharing hashes) with HP, DHP, RCU flavours and nogc (53 variants): linearizability with insertion tags, functor contract, quiescent structure checks. Held on every case explored.', "note": _SCHED_NOTE, "technique": 'schedule-controlled property-based testing (rapidcheck + libFuzzer) with a linearizability oracle'},
    "C19": {"text": 'Bounded exploration of one iterating thread (forward/reverse passes with pauses and erase_at patterns) against updater threads x schedules over IterableList, MichaelHashSet/SplitListSet over it and FeldmanHashSet/Map (HP, DHP, RCU under lock): positioned elements stay intact, completeness for untouched keys, erase_at linearised by tag. Held on every case explored.', "note": _SCHED_NOTE, "technique": 'schedule-controlled property-based testing (rapidcheck + libFuzzer) with element-liveness, completeness and linearizability oracles'},
    "C20": {"text": 'Generated single-thread API sequences (up to 40/80 operations) over every list/hash variant and over queues, stacks, deques, priority queues and the ring buffer, compared step by step with exact std:: reference models; held on every sequence explored. Held on every case explored.', "note": _SCHED_NOTE, "technique": 'model-based (stateful) property-based testing with rapidcheck: differential against std:: reference models'},
    "C23": {"text": 'Bounded exploration of requesters, combiners, exclusive invocations, short-lived child threads and list compaction (compact factor 1-2, combine passes 1-2, all lock/wait-strategy combinations) over the real flat-combining kernel: exactly-once execution under mutual exclusion, response after execution, publication records freed once and never touched afterwards (tracking allocator + ASan). Held on every case explored.', "note": _SCHED_NOTE, "technique": 'schedule-controlled property-based testing (rapidcheck + libFuzzer) with execution-count, occupancy and allocation-tracking oracles'},
    "C26": {"text": 'Generated inc/dec/ramp sequences plus complete enumeration of all prefix-nonnegative inc/dec words up to length 22-26 (from several base counts up to 2^20) and the full 2^20 ramp, against a snapshot stack and an outstanding-slot bitmap. Held on every case explored.', "note": _SCHED_NOTE, "technique": 'property-based testing (rapidcheck) and exhaustive enumeration of short Dyck-like words against a reference model'},
    "C27": {"text": "Generated (k, hash, bucket) inputs for all three bit-reversal implementations plus enumeration of complete tables (k <= 12/16) and of all parents of buckets < 2^24/2^28, against the statement's lemma predicates; bucket numbers >= 2^31 in a forked child. Held on every case explored.", "note": _SCHED_NOTE, "technique": 'property-based testing (rapidcheck) and exhaustive enumeration of small tables against lemma predicates'},
    "C28": {"text": 'Generated (hash width, head_bits, array_bits) configurations and hash pairs/bulks with shared prefixes: metrics::make invariants, slot paths as a function of the hash, divergence of distinct hashes, and a single-threaded FeldmanHashSet layer compared with a std::map. Held on every case explored.', "note": _SCHED_NOTE, "technique": 'property-based testing (rapidcheck) with algebraic-law and reference-model oracles'},
    "C07": {"text": "Bounded exploration of generated enqueue/dequeue programs x schedules over VyukovMPMCCycleQueue (value + intrusive, static + dynamic buffers, capacities 2..8, wrap-around prefixes, single-consumer front/pop_front) with a linearizability check against a bounded FIFO; held on every case explored.",
            "note": _SCHED_NOTE, "technique": "schedule-controlled property-based testing (rapidcheck + libFuzzer) with a linearizability oracle"},
    "C09": {"text": "Bounded exploration of generated push/pop programs x schedules over TreiberStack (container + intrusive, HP + DHP, elimination off / static 1..4 / dynamic buffers) with a LIFO linearizability check, plus enumeration of all schedules with <= 2 pre-emptions for four 3-thread programs that reach elimination collisions; held on every case explored.",
            "note": _SCHED_NOTE, "technique": "schedule-controlled property-based testing (rapidcheck + libFuzzer + bounded schedule enumeration) with a linearizability oracle"},
    "C12": {"text": "Bounded exploration of generated producer/consumer programs x schedules over WeakRingBuffer<T> (capacities 2..16, power-of-two and arbitrary) and WeakRingBuffer<void> (capacities 32..128, tail-marker and wrap biased record sizes) against an exact sequence/bytes oracle and conservative failure rules; held on every case explored.",
            "note": _SCHED_NOTE, "technique": "schedule-controlled property-based testing (rapidcheck + libFuzzer) with a reference-model oracle"},
    "C24": {"text": "Bounded exploration of generated allocate/deallocate programs x schedules over vyukov_queue_pool, lazy_vyukov_queue_pool, bounded_vyukov_queue_pool and pool_allocator, up to and past capacity, against an ownership map; held on every case explored.",
            "note": _SCHED_NOTE, "technique": "schedule-controlled property-based testing (rapidcheck + libFuzzer) with an ownership-map oracle"},
    "C21": {"text": "Bounded exploration of generated get/put programs x schedules over FreeList, TaggedFreeList (16-byte CAS) and CachedFreeList against an ownership map and an exact drain at quiescence; held on every case explored.",
            "note": _SCHED_NOTE, "technique": "schedule-controlled property-based testing (rapidcheck + libFuzzer) with an ownership-map oracle"},
    "C22": {"text": "Bounded exploration of generated well-formed lock/try_lock/unlock programs (nesting for reentrant locks) x schedules over spin locks with all back-offs, reentrant spin locks, lock_array, injecting_monitor and pool_monitor over the three Vyukov pools, against occupancy/owner counters and the pool-lock invariants; held on every case explored.",
            "note": _SCHED_NOTE, "technique": "schedule-controlled property-based testing (rapidcheck + libFuzzer) with occupancy-counter oracles"},
    "C08": {"text": "Bounded exploration of generated enqueue/dequeue programs x schedules for SegmentedQueue (container + intrusive, HP + DHP, quasi factors 2..8 incl. non powers of two, three deterministic permutation generators); every history is checked against the statement's three invariants in their conservative reading; held on every case explored.",
            "note": _SCHED_NOTE, "technique": "schedule-controlled property-based testing (rapidcheck + libFuzzer) with history-invariant oracles"},
    "C25": {"text": "Generated inputs (structured + random 64-bit values, cut-width sequences over 1..20-byte sources) plus complete enumeration of all 2^32 inputs of the 32-bit variants (thorough tier; stratified 2^24 sample in the quick tier) and of all byte/16-bit values for the table helpers, against naive reference implementations; held on every input explored.",
            "note": "Trusted base: the naive reference implementations in h/pure_bits_ref.h, ASan/UBSan, rapidcheck. 64-bit overloads are not enumerated.",
            "technique": "property-based testing (rapidcheck) and exhaustive enumeration of the 32-bit sub-domain against reference implementations"},
    "C01": {"text": _SMR_TEXT + " Variants: HP in-place and classic scan, odd and even addresses.", "note": _SCHED_NOTE,
            "technique": "schedule-controlled property-based testing (rapidcheck + libFuzzer) with a guard-bookkeeping / poisoning oracle"},
    "C02": {"text": _SMR_TEXT + " Variant: DHP with small initial guard counts, extension blocks and multi-block retired lists.", "note": _SCHED_NOTE,
            "technique": "schedule-controlled property-based testing (rapidcheck + libFuzzer) with a guard-bookkeeping / poisoning oracle"},
    "C03": {"text": _SMR_TEXT + " Decides the exactly-once clause (per-object counters after singleton destruction, incl. objects of detached threads) and the promptness clause (explicit scan with no guard on the object).", "note": _SCHED_NOTE,
            "technique": "schedule-controlled property-based testing (rapidcheck + libFuzzer) with per-object disposer accounting"},
    "C04": {"text": _RCU_TEXT + " Decides the grace-period clause.", "note": _SCHED_NOTE,
            "technique": "schedule-controlled property-based testing (rapidcheck + libFuzzer) with a reader-section interval oracle"},
    "C05": {"text": _RCU_TEXT + " Decides exactly-once disposal by singleton destruction, incl. buffer-full paths.", "note": _SCHED_NOTE,
            "technique": "schedule-controlled property-based testing (rapidcheck + libFuzzer) with per-object disposer accounting"},
    "C06": {
        "text": "Bounded exploration: generated (variant, program, schedule) cases for MSQueue/MoirQueue/BasketQueue/OptimisticQueue (container + intrusive, HP + DHP, item counter, seq_cst) each checked for linearizability against a sequential FIFO including the final drain; held on every case explored. Exploration is the right level because the property quantifies over all interleavings and no finite enumeration of them exists for the real code.",
        "note": _SCHED_NOTE,
        "technique": "schedule-controlled property-based testing (rapidcheck + libFuzzer) with a linearizability oracle",
    },
}
