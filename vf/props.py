"""Property table: which harnesses decide which property, and with what budgets.
quick / thorough = total number of generated cases over all workers of that harness;
fuzz_runs = libFuzzer executions in the thorough tier (0 = none)."""

SC = "Schedules are explored by a deterministic token scheduler: every libcds atomic operation, mutex/condvar call and back-off is a scheduling point."

SMR_ASSUME = ("Oracle: harness bookkeeping of validated guards (protect/assign+recheck/copy/GuardArray) with logical timestamps; a disposal is a violation when a guard "
              "established before the reclaiming API call began still holds the object; per-object disposer counters; memory really freed on disposal (ASan); "
              "promptness clause checked only for explicit scan() calls that ran without any token switch while no other thread was manipulating a guard.")

RCU_ASSUME = ("Oracle: per-object snapshot of the read-side critical sections open when retire_ptr/batch_retire was called; a disposal while one of them is still open, a synchronize() "
              "returning while a section open at its call is still open, or an object fetched inside a section found disposed before the outermost unlock is a violation; "
              "per-object disposer counters after the singleton is destroyed. Signals of the signal-handling flavour are delivered by the scheduler at the target's next scheduling point. "
              "Buffer capacities 2,3,4,8 with the default Vyukov buffer (capacity 1 is outside that buffer's precondition).")

PROPS = {
    "C01": {
        "harnesses": [{"name": "smr", "variants": [0, 1], "quick": 480000, "thorough": 6000000, "fuzz_runs": 600000}],
        "assumptions": [SC, SMR_ASSUME],
    },
    "C02": {
        "harnesses": [{"name": "smr", "variants": [2], "quick": 320000, "thorough": 4000000, "fuzz_runs": 400000}],
        "assumptions": [SC, SMR_ASSUME],
    },
    "C03": {
        "harnesses": [{"name": "smr", "variants": [0, 1, 2], "quick": 480000, "thorough": 6000000, "fuzz_runs": 600000}],
        "assumptions": [SC, SMR_ASSUME],
    },
    "C04": {
        "harnesses": [{"name": "rcu", "quick": 480000, "thorough": 6000000, "fuzz_runs": 600000}],
        "assumptions": [SC, RCU_ASSUME],
    },
    "C05": {
        "harnesses": [{"name": "rcu", "quick": 480000, "thorough": 6000000, "fuzz_runs": 600000}],
        "assumptions": [SC, RCU_ASSUME],
    },
    "C08": {
        "harnesses": [{"name": "segq", "quick": 400000, "thorough": 4000000, "fuzz_runs": 400000}],
        "assumptions": [SC, "Oracle: history invariants in their conservative reading (conservation, quasi-factor bound with q.quasi_factor(), emptiness rule), final drain/clear by main, per-node disposer accounting for the intrusive variants; deterministic permutation generators replace the random one through the documented trait."],
    },
    "C25": {
        "harnesses": [{"name": "pure_bits", "quick": 160000, "thorough": 2400000, "fuzz_runs": 0,
                       "extra": {"quick": [["bytes"]] + [["rev32s", i, 16, 16] for i in range(16)],
                                 "thorough": [["bytes"]] + [["rev32", i, 16] for i in range(16)]}}],
        "assumptions": ["Pure functions, no scheduler. Oracle: naive bit-loop reference implementations, involution, cross-agreement of swar/lookup/muldiv, generic and amd64 bitop paths, reference cursor over the little-endian byte image for the splitters (source placed at the end of a heap block, ASan/UBSan on).",
                        "64-bit variants are sampled (structured + random), 32-bit variants are enumerated by the rev32/rev32s extra jobs."],
    },
    "C06": {
        "harnesses": [
            {"name": "queue_ms", "quick": 160000, "thorough": 2400000, "fuzz_runs": 800000, "weight": 3},
        ],
        "assumptions": [SC, "Oracle: Wing-Gong linearizability search against a sequential FIFO model, including the final drain; intrusive nodes: disposer exactly once per node after SMR destruction, link part ASan-poisoned after disposal."],
    },
}

PENDING = "check not built yet in this round; the design in DESIGN.md section 5 applies and the harness is being written"
NOT_APPLICABLE = {("C%02d" % i): PENDING for i in range(1, 29)}

_SCHED_NOTE = ("Trusted base: the token scheduler and pthread interposers in rt/vsched.cpp, the instrumented atomics header, the linearizability checker rt/lin.h (self-tested), "
               "ASan/UBSan, rapidcheck, libFuzzer. Assumes sequentially consistent interleavings at atomic-operation granularity; bounded threads/operations/pre-emptions.")

_SMR_TEXT = ("Bounded exploration of generated client programs (protect/assign/copy/deref/release, swap+retire, bulk retire around the array capacity, explicit scan, detach/re-attach, "
             "GuardArray, DHP guard-block extension) x generated schedules against harness bookkeeping of validated guards and per-object disposer accounting; held on every case explored.")
_RCU_TEXT = ("Bounded exploration of generated reader/writer programs (nested read-side sections, retire_ptr, batch_retire, synchronize, bulk retire past the buffer capacity) x generated "
             "schedules for all four flavours incl. the reclamation thread and simulated signal delivery; held on every case explored.")

MANIFEST_TEXT = {
    "C08": {"text": "Bounded exploration of generated enqueue/dequeue programs x schedules for SegmentedQueue (container + intrusive, HP + DHP, quasi factors 2..8 incl. non powers of two, three deterministic permutation generators); every history is checked against the statement's three invariants in their conservative reading; held on every case explored.",
            "note": _SCHED_NOTE, "technique": "schedule-controlled property-based testing (rapidcheck + libFuzzer) with history-invariant oracles"},
    "C25": {"text": "Generated inputs (structured + random 64-bit values, cut-width sequences over 1..20-byte sources) plus complete enumeration of all 2^32 inputs of the 32-bit variants (thorough tier; stratified 2^24 sample in the quick tier) and of all byte/16-bit values for the table helpers, against naive reference implementations; held on every input explored.",
            "note": "Trusted base: the naive reference implementations in h/pure_bits_ref.h, ASan/UBSan, rapidcheck. 64-bit overloads are not enumerated.",
            "technique": "property-based testing (rapidcheck) and exhaustive enumeration of the 32-bit sub-domain against reference implementations"},
    "C01": {"text": _SMR_TEXT + " Variants: HP in-place and classic scan, odd and even addresses.", "note": _SCHED_NOTE,
            "technique": "schedule-controlled property-based testing (rapidcheck + libFuzzer) with a guard-bookkeeping / poisoning oracle"},
    "C02": {"text": _SMR_TEXT + " Variant: DHP with small initial guard counts, extension blocks and multi-block retired lists.", "note": _SCHED_NOTE,
            "technique": "schedule-controlled property-based testing (rapidcheck + libFuzzer) with a guard-bookkeeping / poisoning oracle"},
    "C03": {"text": _SMR_TEXT + " Decides the exactly-once clause (per-object counters after singleton destruction, incl. objects of detached threads) and the promptness clause (explicit scan with no guard on the object).", "note": _SCHED_NOTE,
            "technique": "schedule-controlled property-based testing (rapidcheck + libFuzzer) with per-object disposer accounting"},
    "C04": {"text": _RCU_TEXT + " Decides the grace-period clause.", "note": _SCHED_NOTE,
            "technique": "schedule-controlled property-based testing (rapidcheck + libFuzzer) with a reader-section interval oracle"},
    "C05": {"text": _RCU_TEXT + " Decides exactly-once disposal by singleton destruction, incl. buffer-full paths.", "note": _SCHED_NOTE,
            "technique": "schedule-controlled property-based testing (rapidcheck + libFuzzer) with per-object disposer accounting"},
    "C06": {
        "text": "Bounded exploration: generated (variant, program, schedule) cases for MSQueue/MoirQueue/BasketQueue/OptimisticQueue (container + intrusive, HP + DHP, item counter, seq_cst) each checked for linearizability against a sequential FIFO including the final drain; held on every case explored. Exploration is the right level because the property quantifies over all interleavings and no finite enumeration of them exists for the real code.",
        "note": _SCHED_NOTE,
        "technique": "schedule-controlled property-based testing (rapidcheck + libFuzzer) with a linearizability oracle",
    },
}
