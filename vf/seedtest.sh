#!/bin/bash
# usage: vf/seedtest.sh <patch.diff> <Cxx> [tier]   -- applies a seeded change in a scratch worktree and runs the check against it
PATCH=$1; PROP=$2; TIER=${3:-quick}
WT=/tmp/me/sv-$PROP
git -C /repo worktree remove --force $WT >/dev/null 2>&1
git -C /repo worktree add -f $WT HEAD >/dev/null 2>&1
git -C $WT apply $PATCH || exit 3
cd /verif
VERIF_REPO=$WT ./check $PROP --tier $TIER 2>&1 | grep -E "VIOLATION|KNOWN|SUMMARY|CHECK-|BUILD|what=" | cut -c1-400 | head -12
git -C /repo worktree remove --force $WT >/dev/null 2>&1
