"""Build cache for the verification harnesses.

Everything is rebuilt from /repo's *current working tree*: the cache key of every object
that sees libcds code is a content hash of /repo/cds and /repo/src (plus the runtime and
the harness source), so an edited tree never reuses stale objects.
"""
import hashlib
import os
import shutil
import subprocess
import sys
import threading
import time
from concurrent.futures import ThreadPoolExecutor

VERIF = os.path.dirname(os.path.dirname(os.path.abspath(__file__)))
REPO = os.environ.get("VERIF_REPO", "/repo")
BUILD = os.path.join(VERIF, ".build")
CXX = "clang++"
GUARD = "KHIZMAX_LIBCDS_VERIF"
BASE_FLAGS = [
    "-std=gnu++17", "-O1", "-g", "-gline-tables-only",
    "-fsanitize=fuzzer-no-link,address,undefined", "-fno-sanitize-recover=undefined",
    "-fno-omit-frame-pointer", "-mcx16", "-pthread",
    "-Wno-invalid-offsetof", "-Wno-unused-value",
    "-D" + GUARD, "-I" + os.path.join(VERIF, "rt"), "-I" + REPO, "-I" + os.path.join(VERIF, "h"),
]
LINK_FLAGS = ["-fsanitize=address,undefined", "-pthread", "-ldl", "-latomic"]
RT_SOURCES = ["vsched.cpp", "case.cpp", "stats.cpp", "lin.cpp"]
SRC_FILES = ["dhp.cpp", "hp.cpp", "hp_thread_local.cpp", "init.cpp", "thread_data.cpp",
             "topology_linux.cpp", "urcu_gp.cpp", "urcu_sh.cpp", "dllmain.cpp"]


def _hash_files(paths, extra=""):
    h = hashlib.sha256()
    h.update(extra.encode())
    for p in sorted(paths):
        h.update(p.encode())
        try:
            with open(p, "rb") as f:
                h.update(f.read())
        except OSError:
            h.update(b"<missing>")
    return h.hexdigest()[:16]


def _walk(root, exts):
    out = []
    for d, _, files in os.walk(root):
        for f in files:
            if f.endswith(exts):
                out.append(os.path.join(d, f))
    return out


def repo_hash():
    files = _walk(os.path.join(REPO, "cds"), (".h",)) + _walk(os.path.join(REPO, "src"), (".cpp", ".h"))
    return _hash_files(files, " ".join(BASE_FLAGS))


def rt_hash():
    # the runtime does not include libcds headers: its cache key must not depend on the repo path
    files = _walk(os.path.join(VERIF, "rt"), (".h", ".cpp"))
    return _hash_files(files, " ".join(f for f in BASE_FLAGS if f != "-I" + REPO))


def _run(cmd, log):
    p = subprocess.run(cmd, stdout=subprocess.PIPE, stderr=subprocess.STDOUT, text=True)
    if p.returncode != 0:
        log.append("$ " + " ".join(cmd) + "\n" + p.stdout[-6000:])
    return p.returncode == 0


def _compile_many(jobs):
    """jobs: list of (src, obj, extra_flags). Returns (ok, log)."""
    log = []
    todo = [(s, o, x) for (s, o, x) in jobs if not os.path.exists(o)]
    if not todo:
        return True, log

    def one(j):
        s, o, x = j
        tmp = o + ".tmp%d.%d" % (os.getpid(), threading.get_ident())
        ok = _run([CXX] + BASE_FLAGS + x + ["-c", s, "-o", tmp], log)
        if ok:
            os.replace(tmp, o)
        return ok
    with ThreadPoolExecutor(max_workers=16) as ex:
        res = list(ex.map(one, todo))
    return all(res), log


def _prune(prefix, keep):
    if not os.path.isdir(BUILD):
        return
    ds = [os.path.join(BUILD, d) for d in os.listdir(BUILD) if d.startswith(prefix)]
    ds.sort(key=lambda d: os.path.getmtime(d), reverse=True)
    for d in ds[keep:]:
        shutil.rmtree(d, ignore_errors=True)


def build_rt():
    """Runtime objects (independent of /repo except through cdsverif/atomic.h)."""
    d = os.path.join(BUILD, "rt-" + rt_hash())
    os.makedirs(d, exist_ok=True)
    os.utime(d, None)
    nocov = ["-fno-sanitize=fuzzer-no-link"]      # the runtime and oracles must not attract the fuzzer
    jobs = [(os.path.join(VERIF, "rt", s), os.path.join(d, s[:-4] + ".o"), nocov) for s in RT_SOURCES]
    jobs.append((os.path.join(VERIF, "rt", "drv_rc.cpp"), os.path.join(d, "drv_rc.o"), nocov))
    jobs.append((os.path.join(VERIF, "rt", "drv_fuzz.cpp"), os.path.join(d, "drv_fuzz.o"), nocov))
    ok, log = _compile_many(jobs)
    if not ok:
        raise RuntimeError("runtime build failed:\n" + "\n".join(log))
    _prune("rt-", 6)
    return d


def lin_selftest():
    """Compile and run the self-test of the linearizability checker (part of setup)."""
    d = build_rt()
    exe = os.path.join(d, "lin_selftest")
    log = []
    if not os.path.exists(exe):
        rt = os.path.join(VERIF, "rt")
        if not _run([CXX, "-std=gnu++17", "-O1", "-I" + rt, os.path.join(rt, "lin_selftest.cpp"), os.path.join(rt, "lin.cpp"),
                     os.path.join(rt, "case.cpp"), "-o", exe], log):
            raise RuntimeError("lin selftest build failed:\n" + "\n".join(log))
    p = subprocess.run([exe], stdout=subprocess.PIPE, stderr=subprocess.STDOUT, text=True)
    if p.returncode != 0:
        raise RuntimeError("lin selftest failed:\n" + p.stdout)
    return p.stdout.strip()


def build_src():
    d = os.path.join(BUILD, "src-" + repo_hash())
    os.makedirs(d, exist_ok=True)
    os.utime(d, None)
    jobs = [(os.path.join(REPO, "src", s), os.path.join(d, "src_" + s[:-4] + ".o"), []) for s in SRC_FILES]
    ok, log = _compile_many(jobs)
    if not ok:
        raise RuntimeError("libcds src build failed (does /repo compile with -D%s?):\n%s" % (GUARD, "\n".join(log)))
    _prune("src-", 12)
    return d


def build_harness(names, libs=(), fuzz=False):
    """Build h/<name>.cpp for the current /repo tree; returns {name: {'pbt': path, 'fuzz': path}}."""
    t0 = time.time()
    rt = build_rt()
    src = build_src()
    rh, th = repo_hash(), rt_hash()
    out = {}
    jobs = []
    names = list(dict.fromkeys(names))          # a property may list one harness twice (different variant subsets)
    for n in names:
        hsrc = os.path.join(VERIF, "h", n + ".cpp")
        deps = [hsrc] + _walk(os.path.join(VERIF, "h"), (".h",))
        key = _hash_files(deps, rh + th + " ".join(libs))
        d = os.path.join(BUILD, "h-%s-%s" % (n, key))
        os.makedirs(d, exist_ok=True)
        os.utime(d, None)
        out[n] = {"dir": d, "pbt": os.path.join(d, n + ".pbt"), "fuzz": os.path.join(d, n + ".fuzz")}
        jobs.append((hsrc, os.path.join(d, n + ".o"), []))
    ok, log = _compile_many(jobs)
    if not ok:
        raise RuntimeError("harness build failed:\n" + "\n".join(log))
    rt_objs = [os.path.join(rt, s[:-4] + ".o") for s in RT_SOURCES]
    src_objs = [os.path.join(src, "src_" + s[:-4] + ".o") for s in SRC_FILES]
    log = []
    for n in names:
        o = out[n]
        hobj = os.path.join(o["dir"], n + ".o")
        if not os.path.exists(o["pbt"]):
            tmp = o["pbt"] + ".tmp%d" % os.getpid()
            if not _run([CXX, "-o", tmp, os.path.join(rt, "drv_rc.o"), hobj] + rt_objs + src_objs + LINK_FLAGS + ["-lrapidcheck"] + list(libs), log):
                raise RuntimeError("link failed:\n" + "\n".join(log))
            os.replace(tmp, o["pbt"])
        if fuzz and not os.path.exists(o["fuzz"]):
            tmp = o["fuzz"] + ".tmp%d" % os.getpid()
            if not _run([CXX, "-o", tmp, os.path.join(rt, "drv_fuzz.o"), hobj] + rt_objs + src_objs +
                        ["-fsanitize=fuzzer,address,undefined", "-pthread", "-ldl", "-latomic"] + list(libs), log):
                raise RuntimeError("fuzz link failed:\n" + "\n".join(log))
            os.replace(tmp, o["fuzz"])
    for n in names:
        _prune("h-%s-" % n, 2)
    for n in names:
        out[n]["build_s"] = time.time() - t0
    return out


if __name__ == "__main__":
    names = sys.argv[1:]
    t = time.time()
    r = build_harness(names, fuzz=True)
    print(r, "%.1fs" % (time.time() - t))
