"""Generates MANIFEST.json from the property table (run: python3 -m vf.manifest)."""
import json
import os
import subprocess

from .build import VERIF, GUARD
from .props import PROPS, NOT_APPLICABLE, MANIFEST_TEXT

ALL = ["C%02d" % i for i in range(1, 29)]


def main():
    hooks = subprocess.run(["git", "-C", "/repo", "log", "--format=%H %s"], stdout=subprocess.PIPE, text=True).stdout.splitlines()
    hook_commits = [l.split()[0] for l in hooks if " verif hook:" in l]
    checks = []
    for pid in ALL:
        if pid not in PROPS:
            continue
        t = MANIFEST_TEXT[pid]
        checks.append({
            "property_id": pid,
            "quick_cmd": "./check %s --tier quick" % pid,
            "thorough_cmd": "./check %s --tier thorough" % pid,
            "evidence_file": "/verif/evidence/%s.json" % pid,
            "replay_cmd_template": "./check %s --replay {path}" % pid,
            "engine": "cdsverif",
            "level_claimed": {"category": "exploration", "text": t["text"], "design_ref": "DESIGN.md section 5, " + pid},
            "level_note": t["note"],
            "technique": t["technique"],
        })
    na = [{"property_id": pid, "reason": NOT_APPLICABLE[pid]} for pid in ALL if pid not in PROPS]
    m = {
        "version": 1,
        "setup_cmd": "./check --setup",
        "hooks": {
            "guard": GUARD,
            "enable": "harnesses are compiled by vf/build.py with clang++ -D%s -I/verif/rt -I/repo (instrumented atomics namespace + back-off yield hook); /repo/src/*.cpp are compiled with the same flags, libcds.so from /repo/_build is never used" % GUARD,
            "baseline_off_cmd": "cmake --build /repo/_build -j16 && ctest --test-dir /repo/_build -j8 --timeout 900",
            "source_commits": hook_commits,
            "add_only": True,
        },
        "engines": [{
            "name": "cdsverif",
            "path": "/verif/check",
            "serves_properties": [c["property_id"] for c in checks],
            "kind_free_text": "property-based testing (rapidcheck, integrated shrinking) and coverage-guided fuzzing (libFuzzer, thorough tier) over one harness entry run_case(Case); concurrency cases run under a deterministic token scheduler that owns every atomic operation, mutex, condvar and back-off of libcds, so the schedule is a generated, shrinkable, replayable input; oracles: linearizability search against sequential models, per-object disposer accounting + ASan, ownership/occupancy maps, reference implementations for pure functions",
        }],
        "checks": checks,
        "not_applicable": na,
        "notes": "Exit 0 = held on everything explored; exit 1 + 'VIOLATION property=<id> replay=<path>'; exit 2 = the check itself is broken (build failure, degenerate generator). Found cases are written under /verif/out/<id>/ (untracked); committed regression cases live in /verif/replays/<id>/. VERIF_SEED selects the campaign seed.",
    }
    with open(os.path.join(VERIF, "MANIFEST.json"), "w") as f:
        json.dump(m, f, indent=1)
    print("MANIFEST.json: %d checks, %d not_applicable" % (len(checks), len(na)))


if __name__ == "__main__":
    main()
