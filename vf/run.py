"""Orchestrator: builds the harnesses of a property from /repo's working tree, runs the replay
tier, the rapidcheck campaign (16 pinned workers) and, in the thorough tier, a libFuzzer
campaign; triages failures (3x replay in fresh processes, reduction), matches them against
known_findings.json, writes evidence/<id>.json and prints VIOLATION / KNOWN-FINDING lines.

Exit codes: 0 held (possibly with KNOWN-FINDING lines), 1 violation, 2 broken check.
"""
import glob
import hashlib
import json
import os
import re
import shutil
import struct
import subprocess
import sys
import time

from . import build
from .props import PROPS

VERIF = build.VERIF
NCPU = 16
ENV_BASE = {
    "ASAN_OPTIONS": "quarantine_size_mb=4:detect_leaks=0:exitcode=77:abort_on_error=0:allocator_may_return_null=1:handle_segv=1:detect_stack_use_after_return=0",
    "UBSAN_OPTIONS": "print_stacktrace=1:halt_on_error=1:exitcode=77",
}
ABORT_CODES = (42, 43)
# VERIF_BUDGET_SCALE scales the case counts (smoke-testing a tier); the registered commands do not set it
SCALE = float(os.environ.get("VERIF_BUDGET_SCALE", "1") or 1)


def log(msg):
    print(msg, flush=True)


def sub_seed(*parts):
    h = hashlib.sha256(":".join(str(p) for p in parts).encode()).digest()
    return (struct.unpack("<I", h[:4])[0] % 2000000000) + 1


def run_replay(binary, path, timeout=120):
    env = dict(os.environ)
    env.update(ENV_BASE)
    try:
        p = subprocess.run(["taskset", "-c", "0", binary, "--replay", path], stdout=subprocess.PIPE, stderr=subprocess.STDOUT,
                           text=True, env=env, timeout=timeout, errors="replace")
        return p.returncode, p.stdout
    except subprocess.TimeoutExpired:
        return 124, "timeout"


def classify_replay(rc, out):
    """-> 'pass' | 'fail' | 'inconclusive' | 'crash'"""
    if rc == 0:
        return "pass"
    if rc in ABORT_CODES or rc == 124:
        return "inconclusive"
    if rc == 1 and "REPLAY FAIL" in out:
        return "fail"
    if rc == 2:
        return "inconclusive"
    return "crash"


def failure_signature(out):
    m = re.search(r"FAILMSG (.*)", out)
    if m:
        return m.group(1)[:300]
    m = re.search(r"(ERROR: AddressSanitizer: [^\n]*?) on address", out)
    if m:
        loc = re.search(r"#0 0x[0-9a-f]+ in ([^\n]*)", out)
        return (m.group(1) + (" in " + loc.group(1) if loc else ""))[:300]
    m = re.search(r"runtime error: [^\n]*", out)
    if m:
        return m.group(0)[:300]
    m = re.search(r"Assertion [^\n]*", out)
    if m:
        return m.group(0)[:300]
    m = re.search(r"terminate called[^\n]*\n?[^\n]*", out)
    if m:
        return m.group(0).replace("\n", " ")[:300]
    return out.strip().splitlines()[-1][:300] if out.strip() else "abnormal exit"


def reduce_case(binary, text, want, budget=150):
    """Greedy delta reduction on the text form of a case: drop threads, ops, pre-emptions."""
    lines = [l for l in text.splitlines() if l.strip() and not l.startswith("#")]
    tmp = os.path.join(VERIF, "out", ".reduce-%d.case" % os.getpid())
    tries = [0]

    def still(ls):
        if tries[0] >= budget:
            return False
        tries[0] += 1
        with open(tmp, "w") as f:
            f.write("\n".join(ls) + "\n")
        rc, out = run_replay(binary, tmp, timeout=60)
        return classify_replay(rc, out) == want

    changed = True
    while changed and tries[0] < budget:
        changed = False
        # drop a whole thread (keep at least two)
        tidx = [i for i, l in enumerate(lines) if l.startswith("thread")]
        if len(tidx) > 2:
            for i in tidx:
                cand = lines[:i] + lines[i + 1:]
                if still(cand):
                    lines = cand
                    changed = True
                    break
            if changed:
                continue
        # drop single ops / pre-emptions
        for i, l in enumerate(lines):
            if l.startswith("thread") or l.startswith("sched"):
                toks = l.split()
                for k in range(1, len(toks)):
                    cand_l = " ".join(toks[:k] + toks[k + 1:])
                    cand = lines[:i] + [cand_l] + lines[i + 1:]
                    if still(cand):
                        lines = cand
                        changed = True
                        break
                if changed:
                    break
    try:
        os.unlink(tmp)
    except OSError:
        pass
    return "\n".join(lines) + "\n"


def load_known():
    p = os.path.join(VERIF, "known_findings.json")
    if not os.path.exists(p):
        return []
    with open(p) as f:
        return json.load(f).get("findings", [])


def match_known(pid, harness, sig, case_text, known):
    for k in known:
        if k.get("status") != "open" or k.get("property") != pid:
            continue
        m = k.get("match", {})
        if m.get("harness") and m["harness"] != harness:
            continue
        if m.get("msg_regex") and not re.search(m["msg_regex"], sig):
            continue
        if m.get("case_regex") and not re.search(m["case_regex"], case_text, re.S):
            continue
        return k
    return None


class Campaign:
    def __init__(self, pid, tier, seed):
        self.pid = pid
        self.tier = tier
        self.seed = seed
        self.spec = PROPS[pid]
        self.outdir = os.path.join(VERIF, "out", pid)
        self.violations = []      # (harness, replay_path, signature)
        self.known_hits = []
        self.nonrepro = []
        self.notes = []
        self.broken = False
        self.stats = {}           # harness -> merged dict
        self.hashes = {}          # harness -> set
        self.t0 = time.time()

    # ---- triage ---------------------------------------------------------------------
    def triage(self, harness, binary, case_path, origin):
        if not os.path.exists(case_path):
            self.notes.append("%s: %s without a case file" % (harness, origin))
            return
        text = open(case_path).read()
        results = []
        sig = ""
        for _ in range(3):
            rc, out = run_replay(binary, case_path)
            kind = classify_replay(rc, out)
            results.append(kind)
            if kind in ("fail", "crash"):
                sig = failure_signature(out)
        bad = [r for r in results if r in ("fail", "crash")]
        if len(bad) < 3:
            self.nonrepro.append({"harness": harness, "origin": origin, "replays": results, "case": text})
            return
        want = bad[0]
        if want == "crash":
            text = reduce_case(binary, text, "crash")
        h = hashlib.sha256(text.encode()).hexdigest()[:12]
        dst = os.path.join(self.outdir, "found-%s-%s.case" % (harness, h))
        with open(dst, "w") as f:
            f.write(text)
            if "# " not in text:
                f.write("# " + sig + "\n")
        k = match_known(self.pid, harness, sig, text, load_known())
        if k:
            self.known_hits.append((k, dst))
        else:
            self.violations.append((harness, dst, sig))

    # ---- replay tier ------------------------------------------------------------------
    def replay_tier(self, bins):
        n = 0
        for path in sorted(glob.glob(os.path.join(VERIF, "replays", self.pid, "*.case"))):
            first = open(path).readline().split()
            harness = first[1] if len(first) > 1 and first[0] == "harness" else None
            if harness not in bins:
                continue
            rc, out = run_replay(bins[harness]["pbt"], path)
            kind = classify_replay(rc, out)
            n += 1
            if kind in ("fail", "crash"):
                # confirm
                kinds = [classify_replay(*run_replay(bins[harness]["pbt"], path)) for _ in range(2)]
                if all(k in ("fail", "crash") for k in kinds):
                    sig = failure_signature(out)
                    k = match_known(self.pid, harness, sig, open(path).read(), load_known())
                    if k:
                        self.known_hits.append((k, path))
                    else:
                        self.violations.append((harness, path, sig))
        return n

    # ---- rapidcheck campaign ---------------------------------------------------------
    def pbt_campaign(self, bins):
        hs = self.spec["harnesses"]
        total_w = sum(h.get("weight", 1) for h in hs)
        # distribute cores
        alloc = {}
        left = NCPU
        for i, h in enumerate(hs):
            k = max(1, int(round(NCPU * h.get("weight", 1) / total_w)))
            if i == len(hs) - 1:
                k = max(1, left)
            k = min(k, max(1, left - (len(hs) - 1 - i)))
            alloc[i] = k
            left -= k
        jobs = []
        cpu = 0
        for hi, h in enumerate(hs):
            name = h["name"]
            binary = bins[name]["pbt"]
            schema = json.loads(subprocess.run([binary, "--schema"], stdout=subprocess.PIPE, text=True, env=dict(os.environ, **ENV_BASE)).stdout)
            h["_schema"] = schema
            allowed = h.get("variants") or list(range(len(schema["variants"])))
            nvar = len(allowed)
            k = alloc[hi]
            total_cases = int(h.get(self.tier, 0) * SCALE)
            per = max(1, total_cases // k)
            for xi, xargs in enumerate(h.get("extra", {}).get(self.tier, [])):
                jobs.append({"harness": name, "binary": binary, "j": 1000 + xi, "hi": hi, "cpu": cpu % NCPU, "cases": 1, "variants": [0], "restart": 0, "done": 0,
                             "extra": [str(x) for x in xargs]})
                cpu += 1
            for j in range(k if total_cases > 0 else 0):
                if nvar >= k:
                    vs = [allowed[v] for v in range(nvar) if v % k == (j + self.seed) % k]
                else:
                    vs = [allowed[(j + self.seed) % nvar]]
                jobs.append({"harness": name, "binary": binary, "j": j, "hi": hi, "cpu": cpu % NCPU, "cases": per, "variants": vs, "restart": 0, "done": 0, "bounds": h.get("bounds")})
                cpu += 1
        env = dict(os.environ)
        env.update(ENV_BASE)
        wall_limit = self.spec.get("wall_" + self.tier, 900 if self.tier == "quick" else 7200)
        running = []
        pending = list(jobs)
        finished_prefixes = []

        def launch(job):
            prefix = os.path.join(self.outdir, "%s-e%d-w%d-r%d" % (job["harness"], job["hi"], job["j"], job["restart"]))
            job["prefix"] = prefix
            s = sub_seed(self.seed, self.pid, job["harness"], job["hi"], job["j"], job["restart"])
            cmd = ["taskset", "-c", str(job["cpu"]), job["binary"], "--cases", str(job["cases"] - job["done"]), "--seed", str(s),
                   "--tier", job.get("bounds") or self.tier, "--out", prefix, "--variants", ",".join(str(v) for v in job["variants"])]
            if job.get("extra") is not None:
                cmd += ["--extra"] + job["extra"]
            job["log"] = open(prefix + ".log", "w")
            job["proc"] = subprocess.Popen(cmd, stdout=job["log"], stderr=subprocess.STDOUT, env=env)
            job["t0"] = time.time()
            running.append(job)

        while pending or running:
            while pending and len(running) < NCPU:
                launch(pending.pop(0))
            time.sleep(0.2)
            for job in list(running):
                rc = job["proc"].poll()
                if rc is None:
                    if time.time() - self.t0 > wall_limit:
                        job["proc"].kill()
                        job["proc"].wait()
                        self.notes.append("%s worker %d stopped by the wall-clock guard (inconclusive)" % (job["harness"], job["j"]))
                        running.remove(job)
                        job["log"].close()
                        finished_prefixes.append((job["harness"], job["prefix"]))
                    continue
                running.remove(job)
                job["log"].close()
                finished_prefixes.append((job["harness"], job["prefix"]))
                out = open(job["prefix"] + ".log", errors="replace").read()
                st = self.read_stats(job["prefix"])
                if rc == 0:
                    continue
                if rc in ABORT_CODES:
                    done = st.get("evaluations", 0) if st else 0
                    job["done"] += max(1, done)
                    job["restart"] += 1
                    if job["done"] < job["cases"] and job["restart"] < 50 and job.get("extra") is None:
                        pending.append(job)
                    continue
                if job.get("extra") is not None:
                    if os.path.exists(job["prefix"] + ".failing.case"):
                        self.triage(job["harness"], job["binary"], job["prefix"] + ".failing.case", "enumeration falsified")
                    else:
                        self.notes.append("%s extra job %s exited rc=%s without a failing case: %s" % (job["harness"], job["extra"], rc, failure_signature(out)))
                        self.broken = True
                    continue
                if rc == 1 and "FALSIFIED" in out or (rc == 1 and os.path.exists(job["prefix"] + ".failing.case") and "Falsifiable" in out):
                    self.triage(job["harness"], job["binary"], job["prefix"] + ".failing.case", "rapidcheck falsified")
                    # a known finding (or a non-reproducible failure) must not stop the search behind it
                    done = st.get("evaluations", 0) if st else 0
                    job["done"] += max(1, done)
                    job["restart"] += 1
                    if job["done"] < job["cases"] and job["restart"] < 12 and not self.violations:
                        pending.append(job)
                    continue
                # abnormal exit: sanitizer report, assertion, terminate, signal
                self.triage(job["harness"], job["binary"], job["prefix"] + ".current.case", "abnormal exit rc=%s" % rc)
                # continue the search behind the crash with a new seed
                done = st.get("evaluations", 0) if st else 0
                job["done"] += max(1, done)
                job["restart"] += 1
                if job["done"] < job["cases"] and job["restart"] < 6 and not self.violations:
                    pending.append(job)
        for harness, prefix in finished_prefixes:
            self.merge(harness, prefix)

    # ---- libFuzzer campaign ----------------------------------------------------------
    def fuzz_campaign(self, bins):
        hs = [h for h in self.spec["harnesses"] if h.get("fuzz_runs", 0) > 0]
        if not hs:
            return
        env = dict(os.environ)
        env.update(ENV_BASE)
        env["CDSVERIF_TIER"] = self.tier
        procs = []
        per_h = max(1, NCPU // len(hs))
        cpu = 0
        for hi, h in enumerate(hs):
            name = h["name"]
            for j in range(per_h):
                prefix = os.path.join(self.outdir, "%s-e%d-fz%d" % (name, hi, j))
                corpus = prefix + ".corpus"
                os.makedirs(corpus, exist_ok=True)
                e = dict(env)
                e["CDSVERIF_OUT"] = prefix
                if h.get("variants"):
                    e["CDSVERIF_VARIANTS"] = ",".join(str(v) for v in h["variants"])
                s = sub_seed(self.seed, self.pid, name, "fuzz", j)
                cmd = ["taskset", "-c", str(cpu % NCPU), bins[name]["fuzz"], corpus, "-runs=%d" % max(1, int(h["fuzz_runs"] * SCALE) // per_h), "-seed=%d" % s,
                       "-entropic=0", "-max_len=192", "-len_control=0", "-timeout=0", "-rss_limit_mb=4096", "-print_final_stats=1",
                       "-artifact_prefix=" + prefix + ".", "-error_exitcode=78", "-use_value_profile=0"]
                lg = open(prefix + ".log", "w")
                procs.append((name, prefix, subprocess.Popen(cmd, stdout=lg, stderr=subprocess.STDOUT, env=e, cwd=self.outdir), lg))
                cpu += 1
        for name, prefix, p, lg in procs:
            rc = p.wait()
            lg.close()
            if rc in ABORT_CODES:
                pass
            elif rc != 0:
                out = open(prefix + ".log", errors="replace").read()
                if os.path.exists(prefix + ".failing.case") and "CDSVERIF-FAIL" in out:
                    self.triage(name, bins[name]["pbt"], prefix + ".failing.case", "libFuzzer oracle failure")
                elif re.search(r"ERROR: (AddressSanitizer|libFuzzer: deadly signal)|runtime error|Assertion|terminate called", out):
                    self.triage(name, bins[name]["pbt"], prefix + ".current.case", "libFuzzer abnormal exit rc=%s" % rc)
                else:
                    self.notes.append("%s fuzz worker exit rc=%s (load noise: timeout/oom/slow-unit)" % (name, rc))
            self.merge(name, prefix)
            shutil.rmtree(prefix + ".corpus", ignore_errors=True)

    # ---- stats ---------------------------------------------------------------------------
    def read_stats(self, prefix):
        try:
            with open(prefix + ".stats.json") as f:
                return json.load(f)
        except (OSError, ValueError):
            return None

    def merge(self, harness, prefix):
        st = self.read_stats(prefix)
        if not st:
            return
        m = self.stats.setdefault(harness, {"evaluations": 0, "shrink_evaluations": 0, "pass": 0, "fail": 0, "inconclusive": 0, "rejected": 0,
                                            "nontrivial": 0, "points": 0, "switches": 0, "preemptions": 0, "classes": {},
                                            "per_variant": {}, "per_variant_nontrivial": {}, "samples": [], "engines": {}, "inconclusive_samples": [],
                                            "exhaustive_domains": []})
        for k in ("evaluations", "shrink_evaluations", "pass", "fail", "inconclusive", "rejected", "nontrivial", "points", "switches", "preemptions"):
            m[k] += st.get(k, 0)
        for dk in ("classes", "per_variant", "per_variant_nontrivial"):
            for k, v in st.get(dk, {}).items():
                m[dk][k] = m[dk].get(k, 0) + v
        m["engines"][st.get("engine", "?")] = m["engines"].get(st.get("engine", "?"), 0) + st.get("evaluations", 0)
        for s in st.get("samples", []):
            if len(m["samples"]) < 4:
                m["samples"].append(s)
        for d in st.get("exhaustive_domains", []):
            if d not in m["exhaustive_domains"]:
                m["exhaustive_domains"].append(d)
        inc = prefix + ".inconclusive.case"
        if os.path.exists(inc) and len(m["inconclusive_samples"]) < 2:
            m["inconclusive_samples"].append(open(inc).read() + "# " + st.get("abort_note", ""))
        hs = self.hashes.setdefault(harness, set())
        try:
            data = open(prefix + ".hashes", "rb").read()
            for i in range(0, len(data) - 7, 8):
                hs.add(data[i:i + 8])
        except OSError:
            pass

    # ---- main --------------------------------------------------------------------------------
    def run(self):
        shutil.rmtree(self.outdir, ignore_errors=True)
        os.makedirs(self.outdir, exist_ok=True)
        only = os.environ.get("VERIF_ONLY_HARNESS")     # experiments only (seeded changes); not used by the registered commands
        if only:
            self.spec = dict(self.spec, harnesses=[h for h in self.spec["harnesses"] if h["name"] == only])
        names = [h["name"] for h in self.spec["harnesses"]]
        libs = self.spec.get("libs", [])
        want_fuzz = self.tier == "thorough" and any(h.get("fuzz_runs", 0) for h in self.spec["harnesses"])
        tb = time.time()
        try:
            bins = build.build_harness(names, libs=libs, fuzz=want_fuzz)
        except RuntimeError as e:
            log("BUILD-FAILED property=%s\n%s" % (self.pid, e))
            return 2
        build_s = time.time() - tb
        nrep = self.replay_tier(bins)
        self.pbt_campaign(bins)
        if want_fuzz and not self.violations:
            self.fuzz_campaign(bins)
        return self.finish(nrep, build_s)

    def finish(self, nrep, build_s):
        spec = self.spec
        evaluations = sum(m["evaluations"] for m in self.stats.values())
        distinct = sum(len(s) for s in self.hashes.values())
        inconclusive = sum(m["inconclusive"] for m in self.stats.values())
        samples = []
        for name, m in self.stats.items():
            for s in m["samples"][:2]:
                samples.append(s)
        per_h = {}
        for name, m in self.stats.items():
            schema = next(h for h in spec["harnesses"] if h["name"] == name).get("_schema", {})
            vn = schema.get("variants", [])
            pv = {(vn[int(k)] if int(k) < len(vn) else k): v for k, v in m["per_variant"].items()}
            pvn = {(vn[int(k)] if int(k) < len(vn) else k): v for k, v in m["per_variant_nontrivial"].items()}
            per_h[name] = {
                "evaluations": m["evaluations"], "nontrivial": m["nontrivial"], "distinct_nontrivial": len(self.hashes.get(name, ())),
                "inconclusive": m["inconclusive"], "rejected": m["rejected"], "shrink_evaluations": m["shrink_evaluations"],
                "scheduling_points": m["points"], "token_switches": m["switches"], "preemptive_switches": m["preemptions"],
                "classes": m["classes"], "per_variant": pv, "per_variant_nontrivial": pvn, "engines": m["engines"],
                "nontrivial_rule": schema.get("rule", ""), "inconclusive_samples": m["inconclusive_samples"],
                "exhaustive_subdomains": m["exhaustive_domains"],
            }
        rule = spec.get("rule", "")
        if not rule:
            rule = " | ".join("%s: %s" % (n, per_h[n]["nontrivial_rule"]) for n in per_h)
        ev = {
            "property_id": self.pid,
            "tier": self.tier,
            "seed": self.seed,
            "level": "exploration",
            "coverage": {
                "evaluations": evaluations,
                "distinct_nontrivial": distinct,
                "rule": "Cases are generated by rapidcheck (and libFuzzer in the thorough tier) from the harness schema: variant, configuration, per-thread operation lists and a schedule (pre-emption list or random walk); a case is non-trivial when: " + rule + ". distinct = distinct 64-bit hashes of (observed history, schedule trace) among non-trivial cases.",
                "samples": samples if samples else ["<none>"],
                "exhaustive": False,
                "replayed_regression_cases": nrep,
                "inconclusive": inconclusive,
                "per_harness": per_h,
                "nonreproducible_aborts": self.nonrepro,
                "known_findings_reported": sorted(set(k["id"] for k, _ in self.known_hits)),
                "notes": self.notes,
                "build_s": round(build_s, 1),
            },
            "assumptions": spec.get("assumptions", []) + [
                "Only sequentially consistent interleavings at atomic-operation granularity are explored (no weak-memory behaviours); bounds: threads/ops/pre-emptions per the harness schema for this tier.",
                "A case that exceeds the step budget or deadlocks is inconclusive, never a violation.",
            ],
            "wall_s": round(time.time() - self.t0, 1),
            "violations": len(self.violations),
        }
        extra = spec.get("evidence_extra")
        if extra:
            ev["coverage"].update(extra(self))
        os.makedirs(os.path.join(VERIF, "evidence"), exist_ok=True)
        with open(os.path.join(VERIF, "evidence", self.pid + ".json"), "w") as f:
            json.dump(ev, f, indent=1)
        by_id = {}
        for k, path in self.known_hits:
            by_id.setdefault(k["id"], (k, []))[1].append(path)
        for kid, (k, paths) in sorted(by_id.items()):
            log("KNOWN-FINDING: property=%s %s (%s) hits=%d replay=%s" % (self.pid, kid, k.get("what", ""), len(paths), paths[0]))
        seen = set()
        for harness, path, sig in self.violations:
            if path in seen:
                continue
            seen.add(path)
            log("VIOLATION property=%s replay=%s" % (self.pid, path))
            log("  harness=%s what=%s" % (harness, sig))
        log("SUMMARY property=%s tier=%s seed=%d evaluations=%d distinct_nontrivial=%d inconclusive=%d violations=%d wall=%.0fs" % (
            self.pid, self.tier, self.seed, evaluations, distinct, inconclusive, len(seen), time.time() - self.t0))
        if self.violations:
            return 1
        if self.broken:
            log("CHECK-BROKEN property=%s: %s" % (self.pid, "; ".join(self.notes)))
            return 2
        if evaluations == 0 or distinct < 2:
            log("CHECK-DEGENERATE property=%s: generator produced no non-trivial cases" % self.pid)
            return 2
        if inconclusive * 4 > evaluations:
            log("CHECK-DEGENERATE property=%s: more than 25%% of the cases were inconclusive (hang/deadlock)" % self.pid)
            return 2
        for name, m in self.stats.items():
            if m["evaluations"] and len(self.hashes.get(name, ())) == 0:
                log("CHECK-DEGENERATE property=%s: harness %s produced no non-trivial case" % (self.pid, name))
                return 2
        return 0


def replay_one(pid, path):
    spec = PROPS[pid]
    first = open(path).readline().split()
    harness = first[1] if len(first) > 1 else spec["harnesses"][0]["name"]
    bins = build.build_harness([harness], libs=spec.get("libs", []))
    rc, out = run_replay(bins[harness]["pbt"], path)
    print(out)
    kind = classify_replay(rc, out)
    if kind in ("fail", "crash"):
        print("VIOLATION property=%s replay=%s" % (pid, path))
        return 1
    return 0


def main(argv):
    import argparse
    ap = argparse.ArgumentParser()
    ap.add_argument("prop", nargs="?")
    ap.add_argument("--tier", default=os.environ.get("VERIF_TIER", "quick"), choices=["quick", "thorough"])
    ap.add_argument("--seed", type=int, default=int(os.environ.get("VERIF_SEED", "1") or 1))
    ap.add_argument("--replay")
    ap.add_argument("--setup", action="store_true")
    a = ap.parse_args(argv)
    if a.setup:
        t = time.time()
        build.build_rt()
        log(build.lin_selftest())
        build.build_src()
        names = sorted({h["name"] for p in PROPS.values() for h in p["harnesses"]})
        # warm the cache for the unchanged tree
        for pid, spec in sorted(PROPS.items()):
            build.build_harness([h["name"] for h in spec["harnesses"]], libs=spec.get("libs", []))
        log("setup done in %.0fs (%d harnesses)" % (time.time() - t, len(names)))
        return 0
    if not a.prop or a.prop not in PROPS:
        log("unknown property; known: " + " ".join(sorted(PROPS)))
        return 2
    if a.replay:
        return replay_one(a.prop, a.replay)
    c = Campaign(a.prop, a.tier, a.seed)
    return c.run()


if __name__ == "__main__":
    sys.exit(main(sys.argv[1:]))
