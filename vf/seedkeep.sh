#!/bin/bash
# usage: vf/seedkeep.sh <Cxx>: confirm the demonstration of /tmp/seed/<Cxx> in both directions and copy it to /verif/seeded/<Cxx>
ID=$1; D=/tmp/seed/$ID; WT=$D/wt
cd $D || exit 2
git -C $WT diff -- cds src > $D/current.diff
if ! diff -q <(git -C $WT diff -- cds src | grep '^[+-]' ) <(grep '^[+-]' $D/patch.diff) >/dev/null; then echo "worktree diff differs from patch.diff"; fi
( bash ./demo_build.sh > $D/confirm_changed.log 2>&1 ); RC1=$?
git -C $WT apply -R $D/patch.diff || { echo "cannot revert"; exit 3; }
( bash ./demo_build.sh > $D/confirm_orig.log 2>&1 ); RC0=$?
git -C $WT apply $D/patch.diff
echo "$ID demo: changed rc=$RC1 original rc=$RC0"
if [ $RC1 -ne 0 ] && [ $RC0 -eq 0 ]; then
  mkdir -p /verif/seeded/$ID
  cp $D/patch.diff $D/demo.cpp $D/demo_build.sh $D/notes.md /verif/seeded/$ID/ 2>/dev/null
  echo confirmed
fi
